//! C16 — partial writes / I/O errors never tear, duplicate or stall output; sinks keep going after errors.
use crate::c02::emf::*;
use crate::common::{Ctx, Out, Rng};
use crate::sx::{self, Sx};
use metrique_writer::sink::FlushImmediately;
use metrique_writer::stream::{tee, EntryIoStream, IoStreamError};
use metrique_writer::{AnyEntrySink, EntrySink};
use metrique_writer_core::{Entry, EntryWriter, ValidationError, Value, ValueWriter, Observation, Unit, MetricFlags};
use std::sync::{Arc, Mutex};

// ---------------------------------------------------------------------------------- A: writer scripts

/// Full output of the same call under an all-accepting writer on a fresh formatter (the reference for the prefix predicate).
fn full_output(cfg: &Config, call: &Call) -> (Res, Vec<u8>) {
    let mut f = build(cfg);
    let c = Call { rate_exp: call.rate_exp, items: call.items.clone(), script: vec![] };
    exec_call(&mut f, &c)
}

/// The same call through the stream adapters of metrique-writer/src/format.rs on a freshly built formatter:
/// via 1 = `output_to(writer)`, via 2 = `output_to_makewriter(|| writer)` (a new writer handle per entry).
/// Both hand the entry to `Format::format` with the underlying writer: result and received bytes must be those of
/// the direct call.
struct SharedWriter(Arc<Mutex<ScriptWriter>>);
impl std::io::Write for SharedWriter {
    fn write(&mut self, buf: &[u8]) -> std::io::Result<usize> { self.0.lock().unwrap().write(buf) }
    fn write_vectored(&mut self, bufs: &[std::io::IoSlice<'_>]) -> std::io::Result<usize> { self.0.lock().unwrap().write_vectored(bufs) }
    fn flush(&mut self) -> std::io::Result<()> { Ok(()) }
}
fn exec_call_via(cfg: &Config, call: &Call, via: u8) -> (Res, Vec<u8>) {
    use metrique_writer::format::FormatExt;
    let entry = ScriptEntry::new(&call.items);
    let w = Arc::new(Mutex::new(ScriptWriter::new(&call.script)));
    let f = build(cfg);
    let r = if via == 1 {
        let mut st = f.output_to(SharedWriter(w.clone()));
        crate::common::catch(move || st.next(&entry))
    } else {
        let w2 = w.clone();
        let mut st = f.output_to_makewriter(move || SharedWriter(w2.clone()));
        crate::common::catch(move || st.next(&entry))
    };
    let res = match r {
        None => Res::Panicked,
        Some(Ok(())) => Res::Ok,
        Some(Err(IoStreamError::Validation(e))) => Res::Validation(parse_debug_list(&format!("{:?}", e))),
        Some(Err(IoStreamError::Io(e))) => Res::Io(e.kind() == std::io::ErrorKind::WriteZero),
    };
    let got = w.lock().unwrap().received.clone();
    (res, got)
}

fn emit_a(out: &mut Out, case: &Case) {
    let (case_sx, imp_sx, raw) = exec_case(case, out);
    // the stream adapters (unsampled calls): same result, same bytes as the direct call on a fresh formatter
    for call in case.calls.iter().filter(|c| c.rate().is_none() && has_timestamp(&c.items)) {
        let direct = exec_call(&mut build(&case.cfg), call);
        let canon = |r: &(Res, Vec<u8>)| enc_res(&r.0, &r.1, false).to_string();
        for via in [1u8, 2] {
            let got = exec_call_via(&case.cfg, call, via);
            if canon(&got) != canon(&direct) {
                out.fail(format!("through {} the entry's result / received bytes differ from the direct Format::format call: {:?} ({} bytes) vs {:?} ({} bytes)",
                    if via == 1 { "output_to" } else { "output_to_makewriter" }, got.0, got.1.len(), direct.0, direct.1.len()), &case_sx);
            }
            out.count(if via == 1 { "a_via_output_to" } else { "a_via_output_to_makewriter" });
        }
    }
    // property predicate on the implementation alone
    for (call, (res, bytes)) in case.calls.iter().zip(&raw) {
        let (full_res, full) = full_output(&case.cfg, call);
        match (&full_res, res) {
            (Res::Validation(_), Res::Validation(_)) => { if !bytes.is_empty() { out.fail("validation error but bytes written".into(), &case_sx); } }
            (Res::Ok, Res::Ok) => { if *bytes != full { out.fail("Ok reported but the writer did not receive exactly the entry's records".into(), &case_sx); } }
            (Res::Ok, Res::Io(zero)) => {
                if !full.starts_with(bytes) { out.fail("bytes received before the I/O error are not a prefix of the entry's records (torn or duplicated output)".into(), &case_sx); }
                let expect_zero = call.script.iter().find(|r| matches!(r, Resp::Zero | Resp::Fail)).map(|r| matches!(r, Resp::Zero));
                if expect_zero != Some(*zero) { out.fail("I/O error kind does not match the writer's failure (WriteZero vs hard error)".into(), &case_sx); }
            }
            _ => out.fail(format!("result kind changed under a writer script: full={full_res:?} scripted={res:?}"), &case_sx),
        }
        out.count(match res { Res::Ok => "a_result_ok", Res::Validation(_) => "a_result_validation", Res::Io(true) => "a_result_write_zero", Res::Io(false) => "a_result_io", Res::Panicked => "a_result_panic" });
        for r in &call.script { out.count(match r { Resp::Accept(_) => "a_resp_accept", Resp::Interrupted => "a_resp_interrupted", Resp::Zero => "a_resp_zero", Resp::Fail => "a_resp_fail" }); }
    }
    let nt = case.calls.iter().any(|c| !c.script.is_empty());
    out.case(&case_sx, &imp_sx, nt);
}

fn shapes(rng: &mut Rng) -> Vec<(Config, Vec<Item>)> {
    let base = |ns: Vec<&str>| Config { ctor: Ctor::AllValidations, namespaces: ns.into_iter().map(String::from).collect(), default_dims: vec![vec![]], directives: vec![], log_group: None, allow_ignored: false };
    let m = |n: &str, dims: Vec<(&str, &str)>| Item::Value(n.into(), VCall::Metric(vec![Obs::U(5), Obs::R(2.5f64.to_bits(), 2)], UnitS::None, dims.into_iter().map(|(a, b)| (a.to_string(), b.to_string())).collect(), Flag::None));
    let mut v = vec![
        (base(vec!["N"]), vec![Item::Timestamp(7_000_000), m("a", vec![]), Item::Value("s".into(), VCall::Str("x\"y".into()))]),
        (base(vec!["N", "N2", "N3"]), vec![Item::Timestamp(7_000_000), m("a", vec![]), m("b", vec![])]),
        (base(vec!["N"]), vec![Item::Timestamp(7_000_000), Item::Config(CItem::Split), m("a", vec![("d", "1")]), m("b", vec![]), Item::Value("s".into(), VCall::Str("v".into()))]),
        (base(vec!["N", "M"]), vec![Item::Timestamp(7_000_000), Item::Config(CItem::Split), m("a", vec![("d", "1")]), m("c", vec![("d", "1")])]),
        (base(vec!["N"]), vec![Item::Timestamp(1)]),
    ];
    for _ in 0..3 {
        let cfg = gen_config(rng);
        let mut items = gen_items(rng, &cfg, &GenOpts { defects: 0, allow_scripts: true, allow_split: true });
        if !has_timestamp(&items) { items.insert(0, Item::Timestamp(3_000_000)); }
        if count_split_sets(&items) <= 1 { v.push((cfg, items)); }
    }
    v
}

// ---------------------------------------------------------------------------------- B: sinks

#[derive(Clone, Copy, Debug, PartialEq)]
enum SRes { Ok, Validation, Io }

#[derive(Default)]
struct Log { events: Vec<Sx> }

struct IdWriter(Option<u64>);
struct IdValueWriter<'a>(&'a mut Option<u64>);
impl ValueWriter for IdValueWriter<'_> {
    fn string(self, _v: &str) {}
    fn metric<'a>(self, d: impl IntoIterator<Item = Observation>, _u: Unit, _dims: impl IntoIterator<Item = (&'a str, &'a str)>, _f: MetricFlags<'_>) {
        if let Some(Observation::Unsigned(v)) = d.into_iter().next() { *self.0 = Some(v); }
    }
    fn error(self, _e: ValidationError) {}
}
impl<'a> EntryWriter<'a> for IdWriter {
    fn timestamp(&mut self, _t: std::time::SystemTime) {}
    fn value(&mut self, name: impl Into<std::borrow::Cow<'a, str>>, value: &(impl Value + ?Sized)) {
        if name.into() == "id" { value.write(IdValueWriter(&mut self.0)); }
    }
    fn config(&mut self, _c: &'a dyn metrique_writer_core::EntryConfig) {}
}

struct ScriptStream { id: u32, log: Arc<Mutex<Log>>, results: Arc<Mutex<std::collections::VecDeque<(SRes, bool)>>> }
impl EntryIoStream for ScriptStream {
    fn next(&mut self, entry: &impl Entry) -> Result<(), IoStreamError> {
        let mut w = IdWriter(None);
        entry.write(&mut w);
        self.log.lock().unwrap().events.push(Sx::L(vec![sx::n(0u8), sx::n(self.id), sx::n(w.0.unwrap_or(u64::MAX))]));
        let r = self.results.lock().unwrap().front().map(|x| x.0).unwrap_or(SRes::Ok);
        match r {
            SRes::Ok => Ok(()),
            SRes::Validation => Err(IoStreamError::Validation(ValidationError::invalid("scripted"))),
            SRes::Io => Err(IoStreamError::Io(std::io::ErrorKind::BrokenPipe.into())),
        }
    }
    fn flush(&mut self) -> std::io::Result<()> {
        self.log.lock().unwrap().events.push(Sx::L(vec![sx::n(1u8), sx::n(self.id)]));
        let ok = self.results.lock().unwrap().pop_front().map(|x| x.1).unwrap_or(true);
        if ok { Ok(()) } else { Err(std::io::ErrorKind::Other.into()) }
    }
}

struct IdEntry(u64);
impl Entry for IdEntry {
    fn write<'a>(&'a self, w: &mut impl EntryWriter<'a>) { w.value("id", &self.0); }
}

fn exec_sinks(kind: u64, calls: &[(u64, SRes, SRes, bool, bool)], variant: u64) -> Sx {
    let log = Arc::new(Mutex::new(Log::default()));
    let r1 = Arc::new(Mutex::new(calls.iter().map(|c| (c.1, c.3)).collect::<std::collections::VecDeque<_>>()));
    let r2 = Arc::new(Mutex::new(calls.iter().map(|c| (c.2, c.4)).collect::<std::collections::VecDeque<_>>()));
    let s1 = ScriptStream { id: 0, log: log.clone(), results: r1 };
    let s2 = ScriptStream { id: 1, log: log.clone(), results: r2 };
    let panicked = crate::common::catch(|| {
        if kind == 0 {
            match variant % 3 {
                0 => { let sink = FlushImmediately::<IdEntry, _>::new(s1); for c in calls { sink.append(IdEntry(c.0)); } }
                1 => { let sink = metrique_writer::sink::AnyFlushImmediately::new(s1); for c in calls { sink.append_any(IdEntry(c.0)); } }
                _ => { let sink = FlushImmediately::new_boxed(s1); for c in calls { sink.append(IdEntry(c.0)); } }
            }
        } else {
            let sink = FlushImmediately::<IdEntry, _>::new(tee(s1, s2));
            for c in calls { sink.append(IdEntry(c.0)); }
        }
    }).is_none();
    let mut ev = std::mem::take(&mut log.lock().unwrap().events);
    if panicked { ev.push(Sx::L(vec![sx::n(9u8)])); }
    Sx::L(ev)
}

/// Stream for the background-queue scenarios: results by entry id; the first `next` call can be held at a gate.
struct QStream { log: Arc<Mutex<Log>>, results: std::collections::HashMap<u64, SRes>, flush_ok: Vec<bool>, flushes: usize,
                 gate: Arc<(Mutex<(bool, bool)>, std::sync::Condvar)>, hold_first: bool }
impl EntryIoStream for QStream {
    fn next(&mut self, entry: &impl Entry) -> Result<(), IoStreamError> {
        let mut w = IdWriter(None);
        entry.write(&mut w);
        // no "id" member: the queue's own rate-limited in-band error report (allowed by C01), not an appended entry
        let id = match w.0 { Some(id) => id, None => return Ok(()) };
        self.log.lock().unwrap().events.push(Sx::L(vec![sx::n(0u8), sx::n(0u8), sx::n(id)]));
        if self.hold_first {
            self.hold_first = false;
            let (m, cv) = &*self.gate;
            let mut st = m.lock().unwrap();
            st.0 = true;
            cv.notify_all();
            while !st.1 { st = cv.wait(st).unwrap(); }
        }
        match self.results.get(&id).copied().unwrap_or(SRes::Ok) {
            SRes::Ok => Ok(()),
            SRes::Validation => Err(IoStreamError::Validation(ValidationError::invalid("scripted"))),
            SRes::Io => Err(IoStreamError::Io([std::io::ErrorKind::BrokenPipe, std::io::ErrorKind::Interrupted, std::io::ErrorKind::TimedOut, std::io::ErrorKind::Other][(id % 4) as usize].into())),
        }
    }
    fn flush(&mut self) -> std::io::Result<()> {
        let ok = self.flush_ok.get(self.flushes).copied().unwrap_or(true);
        self.flushes += 1;
        if ok { Ok(()) } else { Err(std::io::ErrorKind::Other.into()) }
    }
}

/// kind 2: a background queue whose writer consumes every entry in its normal loop (a flush request is awaited after
/// each append); kind 3: the writer is held inside the first `next`, everything else is queued behind it, the join handle
/// is dropped meanwhile and the writer released — the rest is consumed around and inside the shutdown drain.
/// Observation: the `next` calls only (flushes of a background queue are a matter of time).
fn exec_queue(kind: u64, calls: &[(u64, SRes, SRes, bool, bool)], variant: u64) -> Sx {
    use metrique_writer::sink::BackgroundQueueBuilder;
    use metrique_writer::{AnyEntrySink, EntrySink};
    let log = Arc::new(Mutex::new(Log::default()));
    let gate = Arc::new((Mutex::new((false, false)), std::sync::Condvar::new()));
    let stream = QStream { log: log.clone(), results: calls.iter().map(|c| (c.0, c.1)).collect(), flush_ok: calls.iter().map(|c| c.3).collect(), flushes: 0,
                           gate: gate.clone(), hold_first: kind == 3 && !calls.is_empty() };
    let panicked = crate::common::catch(|| {
        let b = BackgroundQueueBuilder::new().capacity(64).flush_interval(std::time::Duration::from_millis(if variant % 2 == 0 { 1 } else { 50 }));
        enum H { T(metrique_writer::sink::BackgroundQueue<IdEntry>), B(metrique_writer::BoxEntrySink) }
        let (h, join) = if variant % 3 == 0 { let (q, j) = b.build::<IdEntry>(stream); (H::T(q), j) } else { let (q, j) = b.build_boxed(stream); (H::B(q), j) };
        let append = |e: IdEntry| match &h { H::T(q) => q.append(e), H::B(b) => if variant % 3 == 1 { b.append_any(e) } else { EntrySink::<IdEntry>::append(b, e) } };
        if kind == 2 {
            for c in calls {
                append(IdEntry(c.0));
                let mut f = match &h { H::T(q) => EntrySink::<IdEntry>::flush_async(q), H::B(b) => AnyEntrySink::flush_async(b) };
                let lim = std::time::Instant::now() + std::time::Duration::from_secs(20);
                let w = std::task::Waker::noop();
                let mut cx = std::task::Context::from_waker(w);
                while std::pin::Pin::new(&mut f).poll(&mut cx).is_pending() && std::time::Instant::now() < lim { std::thread::yield_now(); }
            }
            drop(h);
            drop(join);
        } else {
            for c in calls { append(IdEntry(c.0)); }
            if !calls.is_empty() {
                let (m, cv) = &*gate;
                let mut st = m.lock().unwrap();
                let lim = std::time::Instant::now() + std::time::Duration::from_secs(5);
                while !st.0 && std::time::Instant::now() < lim { st = cv.wait_timeout(st, std::time::Duration::from_millis(20)).unwrap().0; }
            }
            std::thread::scope(|sc| {
                let dropper = sc.spawn(move || drop(join));
                std::thread::sleep(std::time::Duration::from_millis(3));
                { let (m, cv) = &*gate; m.lock().unwrap().1 = true; cv.notify_all(); }
                dropper.join().unwrap();
            });
            drop(h);
        }
    }).is_none();
    let mut ev = std::mem::take(&mut log.lock().unwrap().events);
    if panicked { ev.push(Sx::L(vec![sx::n(9u8)])); }
    Sx::L(ev)
}

fn enc_sres(r: SRes) -> Sx { sx::n(match r { SRes::Ok => 0u8, SRes::Validation => 1, SRes::Io => 2 }) }
fn dec_sres(x: &Sx) -> SRes { match x.num() { 0 => SRes::Ok, 1 => SRes::Validation, _ => SRes::Io } }

fn emit_b(out: &mut Out, kind: u64, calls: &[(u64, SRes, SRes, bool, bool)], variant: u64) {
    let case = Sx::L(vec![sx::n(kind), Sx::L(calls.iter().map(|c| Sx::L(vec![sx::n(c.0), enc_sres(c.1), enc_sres(c.2), sx::boolean(c.3), sx::boolean(c.4)])).collect()), sx::n(variant)]);
    let imp = if kind >= 2 { exec_queue(kind, calls, variant) } else { exec_sinks(kind, calls, variant) };
    out.count(match kind { 0 => "b_immediate", 1 => "b_tee", 2 => "b_queue_running", _ => "b_queue_shutdown" });
    let nt = calls.iter().any(|c| c.1 != SRes::Ok || c.2 != SRes::Ok || !c.3 || !c.4);
    out.case(&case, &imp, nt);
}

pub fn run(ctx: &Ctx) {
    crate::common::quiet_panics();
    let mut rng = Rng::new(ctx.seed);
    // ---- suite A
    let mut out = Out::new(ctx, "-a");
    if let Some(p) = &ctx.replay {
        let mut outb = Out::new(ctx, "-b");
        for line in std::fs::read_to_string(p).unwrap().lines().filter(|l| l.starts_with('(')) {
            let x = sx::parse(line);
            if matches!(x.list().first(), Some(Sx::A(..))) {
                let calls: Vec<_> = x.list()[1].list().iter().map(|c| { let c = c.list(); (c[0].num() as u64, dec_sres(&c[1]), dec_sres(&c[2]), c[3].num() != 0, c[4].num() != 0) }).collect();
                emit_b(&mut outb, x.list()[0].num() as u64, &calls, x.list().get(2).map(|v| v.num() as u64).unwrap_or(0));
            } else { emit_a(&mut out, &dec_case(&x)); }
        }
        out.finish("replay"); outb.finish("replay");
        return;
    }
    for (cfg, items) in shapes(&mut rng) {
        let (_, full) = full_output(&cfg, &Call { rate_exp: None, items: items.clone(), script: vec![] });
        let len = full.len() as u64;
        let mk = |script: Vec<Resp>| Case { cfg: cfg.clone(), calls: vec![Call { rate_exp: None, items: items.clone(), script }], sorted: false };
        // every k for a one-shot short write
        let step = if ctx.tier_thorough || len < 400 { 1 } else { 3 };
        let mut k = 1;
        while k <= len + 1 { out.count("a_every_k"); emit_a(&mut out, &mk(vec![Resp::Accept(k)])); k += step; }
        // every position of one Interrupted / Zero / hard error among single-byte..chunked writes
        for pos in 0..6usize {
            for bad in [Resp::Interrupted, Resp::Zero, Resp::Fail] {
                for chunk in [1u64, 17, len / 3 + 1] {
                    let mut s: Vec<Resp> = (0..pos).map(|_| Resp::Accept(chunk)).collect();
                    s.push(bad);
                    out.count("a_fault_position");
                    emit_a(&mut out, &mk(s));
                }
            }
        }
        let n = if ctx.tier_thorough { 400 } else { 60 };
        for _ in 0..n { let s = gen_script(&mut rng, full.len()); out.count("a_random_script"); emit_a(&mut out, &mk(s)); }
        // two calls on one formatter: a failed write must not leak into the next entry
        for bad in [Resp::Zero, Resp::Fail] {
            let c1 = Call { rate_exp: None, items: items.clone(), script: vec![Resp::Accept(len / 2 + 1), bad] };
            let c2 = Call { rate_exp: None, items: items.clone(), script: vec![] };
            out.count("a_then_next_entry");
            emit_a(&mut out, &Case { cfg: cfg.clone(), calls: vec![c1, c2], sorted: false });
        }
    }
    out.finish("writer scripts (every k of a one-shot short write over the record length, every position of one Interrupted/Zero/hard error, random scripts) applied to single, multi-namespace and split records; non-trivial = a non-empty script; distinct by hash");
    // ---- suite B
    let mut outb = Out::new(ctx, "-b");
    let all = [SRes::Ok, SRes::Validation, SRes::Io];
    // a failing entry at every position of a 6-entry input, each failure kind, each sink flavour
    for kind in 0..2u64 { for pos in 0..6usize { for r in all { for r2 in all { for variant in 0..3u64 {
        if kind == 0 && r2 != SRes::Ok { continue; }
        if kind == 1 && variant != 0 { continue; }
        let calls: Vec<_> = (0..6).map(|i| (100 + i as u64, if i == pos { r } else { SRes::Ok }, if i == pos { r2 } else { SRes::Ok }, true, i != pos)).collect();
        emit_b(&mut outb, kind, &calls, variant);
    } } } } }
    let n = if ctx.tier_thorough { 5000 } else { 500 };
    for _ in 0..n {
        let len = rng.range(0, 10) as usize;
        let calls: Vec<_> = (0..len).map(|i| (rng.below(50) + i as u64 * 100, *rng.pick(&all), *rng.pick(&all), rng.chance(3, 4), rng.chance(3, 4))).collect();
        emit_b(&mut outb, rng.below(2), &calls, rng.below(3));
    }
    // the background queue: errors while running and around / inside the shutdown drain
    let nq = if ctx.tier_thorough { 600 } else { 80 };
    for i in 0..nq {
        let len = rng.range(1, 12) as usize;
        let calls: Vec<_> = (0..len).map(|j| (100 + j as u64, *rng.pick(&[SRes::Ok, SRes::Ok, SRes::Validation, SRes::Io, SRes::Io]), SRes::Ok, rng.chance(3, 4), true)).collect();
        emit_b(&mut outb, 2 + (i % 2), &calls, rng.below(6));
    }
    for pos in 0..6usize { for pos2 in pos..6usize { for r in [SRes::Validation, SRes::Io] {
        let calls: Vec<_> = (0..7).map(|j| (200 + j as u64, if j == pos || j == pos2 { r } else { SRes::Ok }, SRes::Ok, true, true)).collect();
        emit_b(&mut outb, 3, &calls, (pos + pos2) as u64);
    } } }
    outb.finish("sink scenarios: scripted streams (per-entry next result Ok/Validation/Io, flush result) under FlushImmediately, AnyFlushImmediately, boxed and Tee; failing entry at every position of a 6-entry input plus random; a background queue (typed / boxed) whose stream fails entries while the writer runs normally and around / inside the shutdown drain (writer held in the first next, join handle dropped meanwhile; one or two failing entries at every pair of positions); non-trivial = at least one failing next/flush; distinct by hash");
}
