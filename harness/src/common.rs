//! Shared plumbing: PRNG, command-line context, case/impl/meta output.
use crate::sx::Sx;
use std::collections::{BTreeMap, HashSet};
use std::fs::File;
use std::hash::{Hash, Hasher};
use std::io::{BufWriter, Write};
use std::path::PathBuf;

/// SplitMix64: every random choice of a run derives from one seed.
#[derive(Clone)]
pub struct Rng(pub u64);
impl Rng {
    pub fn new(seed: u64) -> Self {
        Rng(seed ^ 0x9e37_79b9_7f4a_7c15)
    }
    pub fn next(&mut self) -> u64 {
        self.0 = self.0.wrapping_add(0x9e37_79b9_7f4a_7c15);
        let mut z = self.0;
        z = (z ^ (z >> 30)).wrapping_mul(0xbf58_476d_1ce4_e5b9);
        z = (z ^ (z >> 27)).wrapping_mul(0x94d0_49bb_1331_11eb);
        z ^ (z >> 31)
    }
    pub fn below(&mut self, n: u64) -> u64 {
        if n == 0 { 0 } else { self.next() % n }
    }
    pub fn range(&mut self, lo: u64, hi_incl: u64) -> u64 {
        lo + self.below(hi_incl - lo + 1)
    }
    pub fn chance(&mut self, num: u64, den: u64) -> bool {
        self.below(den) < num
    }
    pub fn pick<'a, T>(&mut self, v: &'a [T]) -> &'a T {
        &v[self.below(v.len() as u64) as usize]
    }
    pub fn fork(&mut self) -> Rng {
        Rng(self.next())
    }
}

pub struct Ctx {
    pub tier_thorough: bool,
    pub seed: u64,
    pub out: PathBuf,
    pub replay: Option<PathBuf>,
    pub extra: Vec<String>,
}

/// Collects cases (model input), the implementation's output for each, and run statistics.
pub struct Out {
    cases: BufWriter<File>,
    imp: BufWriter<File>,
    pub evaluations: u64,
    distinct: HashSet<u64>,
    pub dist: BTreeMap<String, u64>,
    pub samples: Vec<String>,
    pub notes: Vec<String>,
    /// harness-side predicate failures: (description, case line)
    pub failures: Vec<(String, String)>,
    dir: PathBuf,
    suffix: String,
}

impl Out {
    pub fn new(ctx: &Ctx, suffix: &str) -> Out {
        std::fs::create_dir_all(&ctx.out).unwrap();
        let f = |n: &str| BufWriter::new(File::create(ctx.out.join(format!("{n}{suffix}.sx"))).unwrap());
        Out {
            cases: f("cases"),
            imp: f("impl"),
            evaluations: 0,
            distinct: HashSet::new(),
            dist: BTreeMap::new(),
            samples: vec![],
            notes: vec![],
            failures: vec![],
            dir: ctx.out.clone(),
            suffix: suffix.to_string(),
        }
    }
    /// Record one executed case. `nontrivial` is the per-property rule; distinctness is by hash of the case.
    pub fn case(&mut self, case: &Sx, imp: &Sx, nontrivial: bool) {
        let line = case.to_string();
        writeln!(self.cases, "{}", line).unwrap();
        writeln!(self.imp, "{}", imp).unwrap();
        self.evaluations += 1;
        if nontrivial {
            let mut h = std::collections::hash_map::DefaultHasher::new();
            line.hash(&mut h);
            self.distinct.insert(h.finish());
        }
        if self.samples.len() < 4 && (nontrivial || self.evaluations < 3) && line.len() < 600 {
            self.samples.push(format!("{} => {}", line, imp));
        }
    }
    /// Names the case about to be executed, so that if the implementation aborts the process (a panic inside a
    /// destructor that runs during an unwind, a stack overflow) the driver can still report the concrete input.
    pub fn inflight(&mut self, case: &Sx) {
        let _ = std::fs::write(self.dir.join(format!("inflight{}.sx", self.suffix)), case.to_string());
    }
    pub fn count(&mut self, key: &str) {
        *self.dist.entry(key.to_string()).or_insert(0) += 1;
    }
    pub fn add(&mut self, key: &str, v: u64) {
        *self.dist.entry(key.to_string()).or_insert(0) += v;
    }
    pub fn fail(&mut self, what: String, case: &Sx) {
        if self.failures.len() < 50 {
            self.failures.push((what, case.to_string()));
        }
    }
    pub fn finish(mut self, rule: &str) {
        let _ = std::fs::remove_file(self.dir.join(format!("inflight{}.sx", self.suffix)));
        self.cases.flush().unwrap();
        self.imp.flush().unwrap();
        let meta = serde_json::json!({
            "evaluations": self.evaluations,
            "distinct_nontrivial": self.distinct.len(),
            "rule": rule,
            "distribution": self.dist,
            "samples": self.samples,
            "notes": self.notes,
            "failures": self.failures.iter().map(|(w, c)| serde_json::json!({"what": w, "case": c})).collect::<Vec<_>>(),
        });
        std::fs::write(self.dir.join(format!("meta{}.json", self.suffix)), serde_json::to_string_pretty(&meta).unwrap()).unwrap();
    }
}

/// Run a closure, mapping a panic to None (panics are observations, not crashes of the harness).
pub fn catch<T>(f: impl FnOnce() -> T) -> Option<T> {
    std::panic::catch_unwind(std::panic::AssertUnwindSafe(f)).ok()
}

/// Runs `f` inside a tokio task whose cooperative-scheduling budget has been used up earlier in the same poll (the
/// task received ready messages until tokio answered `Pending` although more were waiting).  Returns f's result and
/// whether the budget was indeed exhausted.  Code that does not await is unaffected by the budget — that is the point.
pub fn in_exhausted_tokio_task<R: 'static>(f: impl FnOnce() -> R + 'static) -> (R, bool) {
    use std::future::Future;
    let rt = tokio::runtime::Builder::new_current_thread().build().unwrap();
    let local = tokio::task::LocalSet::new();
    local.block_on(&rt, async move {
        tokio::task::spawn_local(async move {
            let (tx, mut rx) = tokio::sync::mpsc::unbounded_channel::<u8>();
            for _ in 0..2000 {
                tx.send(0).unwrap();
            }
            let w = std::task::Waker::noop();
            let mut cx = std::task::Context::from_waker(w);
            let mut exhausted = false;
            for _ in 0..1999 {
                let mut fut = std::pin::pin!(rx.recv());
                if fut.as_mut().poll(&mut cx).is_pending() {
                    exhausted = true;
                    break;
                }
            }
            (f(), exhausted)
        })
        .await
        .unwrap()
    })
}

/// Drops `x` — when `unwinding`, from a frame that is unwinding from a panic (as when the task owning a guard fails).
/// A drop is a drop: properties that quantify over every order / placement of drops include this one.
pub fn drop_placed<T>(x: T, unwinding: bool) {
    if !unwinding {
        drop(x);
        return;
    }
    struct Marker;
    let r = std::panic::catch_unwind(std::panic::AssertUnwindSafe(move || {
        let _held = x;
        std::panic::resume_unwind(Box::new(Marker));
    }));
    match r {
        Err(p) if p.is::<Marker>() => {}
        Err(p) => std::panic::resume_unwind(p),
        Ok(()) => {}
    }
}

pub fn quiet_panics() {
    if std::env::var("MV_DEBUG").is_ok() { return; }
    std::panic::set_hook(Box::new(|_| {}));
}
