//! C04 — a completed flush means everything appended before it is written and flushed; bounded progress.
//! Three suites: "-s" scheduled runs rich in flush requests (model + barrier/bounded-progress predicate),
//! "-u" unscheduled runs (predicate), "-w" the real WakerTracker driven call by call through the
//! cfg(metrique_verif) WakerDriver and compared with the pure function Queue/Waker.v.
use super::c01::queue_family::{run_family, Focus};
use crate::common::{Ctx, Out, Rng};
use crate::sx::{self, Sx};
use metrique_writer::sink::background_verif::WakerDriver;

#[derive(Clone, Copy, Debug)]
enum WOp {
    Signal,
    Handle { cap: usize, hit: bool, count: usize },
}

fn exec_waker(ops: &[WOp]) -> (Sx, Sx) {
    let mut d = WakerDriver::new();
    let mut receivers: Vec<(u64, tokio::sync::oneshot::Receiver<()>, bool)> = vec![];
    let mut case_ops = vec![];
    let mut outs = vec![];
    let mut next_id = 0u64;
    for op in ops {
        match *op {
            WOp::Signal => {
                let r = d.signal();
                receivers.push((next_id, r, false));
                case_ops.push(sx::tag(0, vec![sx::n(next_id)]));
                next_id += 1;
                outs.push(Sx::L(vec![
                    sx::n(d.waiting() as u64), sx::n(d.entries_before_wake() as u64), sx::n(0u8), sx::n(0u8), Sx::L(vec![]),
                    sx::boolean(d.will_progress()),
                ]));
            }
            WOp::Handle { cap, hit, count } => {
                let (flushes, caps) = d.handle(cap, hit, count);
                let mut woken = vec![];
                for (id, r, done) in receivers.iter_mut() {
                    if !*done {
                        if let Err(tokio::sync::oneshot::error::TryRecvError::Closed) = r.try_recv() {
                            *done = true;
                            woken.push(sx::n(*id));
                        }
                    }
                }
                case_ops.push(sx::tag(1, vec![sx::n(cap as u64), sx::boolean(hit), sx::n(count as u64)]));
                // flush / capacity closures are FnOnce: 0 or 1 calls; report the counts as they are
                outs.push(Sx::L(vec![
                    sx::n(d.waiting() as u64), sx::n(d.entries_before_wake() as u64), sx::n(flushes), sx::n(caps), Sx::L(woken),
                    sx::boolean(d.will_progress()),
                ]));
            }
        }
    }
    (sx::tag(2, vec![Sx::L(case_ops)]), Sx::L(outs))
}

fn dec_ops(case: &Sx) -> Vec<WOp> {
    case.arg(0).list().iter().map(|o| match o.tag() {
        0 => WOp::Signal,
        _ => WOp::Handle { cap: o.arg(0).num() as usize, hit: o.arg(1).num() == 1, count: o.arg(2).num() as usize },
    }).collect()
}

fn waker_suite(ctx: &Ctx) {
    let mut out = Out::new(ctx, "-w");
    let emit = |out: &mut Out, ops: &[WOp]| {
        let (case, imp) = exec_waker(ops);
        let handles = ops.iter().filter(|o| matches!(o, WOp::Handle { .. })).count();
        let signals = ops.len() - handles;
        out.add("waker_signals", signals as u64);
        out.add("waker_handle_calls", handles as u64);
        for o in ops {
            if let WOp::Handle { hit, count, .. } = o {
                out.count(if *hit { "waker_handle_hit_deadline" } else { "waker_handle_drained" });
                if *count == 0 { out.count("waker_handle_count_0"); }
            }
        }
        out.case(&case, &imp, signals >= 1 && handles >= 2);
    };
    if let Some(p) = &ctx.replay {
        for line in std::fs::read_to_string(p).unwrap().lines().filter(|l| l.starts_with("(2 ")) {
            emit(&mut out, &dec_ops(&sx::parse(line)));
        }
        out.finish("replay");
        return;
    }
    // exhaustive: all call sequences up to the depth over a small alphabet, per capacity
    let depth = if ctx.tier_thorough { 7 } else { 5 };
    for cap in 1..=3usize {
        let alphabet = [
            WOp::Signal,
            WOp::Handle { cap, hit: false, count: 0 },
            WOp::Handle { cap, hit: false, count: 2 },
            WOp::Handle { cap, hit: true, count: 1 },
            WOp::Handle { cap, hit: true, count: 2 },
        ];
        let mut idx = vec![0usize; depth];
        'outer: loop {
            let ops: Vec<WOp> = idx.iter().map(|&i| alphabet[i]).collect();
            out.count("waker_exhaustive_sequences");
            emit(&mut out, &ops);
            let mut p = depth;
            loop {
                if p == 0 { break 'outer; }
                p -= 1;
                idx[p] += 1;
                if idx[p] < alphabet.len() { break; }
                idx[p] = 0;
            }
        }
    }
    // random long sequences, realistic counts (multiples of 32 at a deadline, anything when drained)
    let mut rng = Rng::new(ctx.seed ^ 0xc04);
    for _ in 0..(if ctx.tier_thorough { 20000 } else { 2000 }) {
        let cap = *rng.pick(&[1usize, 2, 5, 31, 32, 33, 64, 100, 1000]);
        let len = rng.range(3, 40) as usize;
        let ops: Vec<WOp> = (0..len).map(|_| {
            if rng.chance(1, 3) { WOp::Signal }
            else if rng.chance(1, 2) { WOp::Handle { cap, hit: false, count: rng.below(70) as usize } }
            else { WOp::Handle { cap, hit: true, count: 32 * rng.range(0, 3) as usize + if rng.chance(1, 8) { rng.below(5) as usize } else { 0 } } }
        }).collect();
        out.count("waker_random_sequences");
        emit(&mut out, &ops);
    }
    out.finish("WakerTracker call sequences: exhaustive up to the tier's depth over {signal, handle(Drained,0|2), handle(HitDeadline,1|2)} for capacities 1-3, plus random long sequences with capacities up to 1000; non-trivial = at least one signal and two handle calls");
}

pub fn run(ctx: &Ctx) {
    waker_suite(ctx);
    run_family(
        ctx,
        Focus::Flush,
        "scheduled: plans in which ~30% of the operations are flush requests (any thread, any time, also after shutdown), 1-4 producers, \
         capacities 1-8/64 and >32 with the 1 us flush interval (deadline hit every 32 entries), seeded random schedules; non-trivial = at \
         least 3 appends, writer and producers interleaved, and at least one of: overflow, flush request, stream error, two producers",
    );
}
