//! C01, "rate-limited": the limiter (`rate_limited!`, metrique-writer/src/rate_limit.rs) in front of the queue's
//! in-band error report, observed through a real background queue while the limiter's clock is forced
//! (`rate_limit_verif::force_time`, cfg(metrique_verif)).  One case = a list of operations
//! (set the clock / append an entry whose `next` fails validation / append one that succeeds); the observation
//! per operation is "an in-band report was written".  Model: `c01_rate_run` (Queue/RateLimit.v).
use super::queue_core::*;
use super::queue_family::subscriber_installed;
use crate::common::{Out, Rng};
use crate::sx::{self, Sx};
use metrique_writer::EntrySink;
use metrique_writer::rate_limit_verif as rlv;
use metrique_writer::sink::BackgroundQueueBuilder;
use std::sync::atomic::{AtomicU64, Ordering};
use std::sync::{Arc, Mutex};
use std::time::{Duration, Instant};

const NS: u128 = 1_000_000_000;

/// Largest whole second the limiter's clock has shown in this process: the limiter's word `NEXT_CALL` is at most
/// one second above it.  Starts far above any process uptime (the limiter's real clock counts from its first use).
static MAX_SECS: AtomicU64 = AtomicU64::new(1_000_000);

#[derive(Clone, Copy, Debug)]
pub enum ROp {
    /// clock reading, nanoseconds, relative to the case's base (or absolute)
    Set(u128),
    Fail,
    Okk,
}

fn dur(ns: u128) -> Duration {
    Duration::new((ns / NS) as u64, (ns % NS) as u32)
}

pub fn rate_case(absolute: bool, ops: &[ROp]) -> Sx {
    sx::tag(
        7,
        vec![
            sx::boolean(absolute),
            Sx::L(ops
                .iter()
                .map(|o| match o {
                    ROp::Set(t) => sx::tag(0, vec![sx::n(*t)]),
                    ROp::Fail => sx::tag(1, vec![]),
                    ROp::Okk => sx::tag(2, vec![]),
                })
                .collect()),
        ],
    )
}

fn dec_ops(x: &Sx) -> Vec<ROp> {
    x.list()
        .iter()
        .map(|o| match o.tag() {
            0 => ROp::Set(o.arg(0).num()),
            1 => ROp::Fail,
            _ => ROp::Okk,
        })
        .collect()
}

/// Runs one case on the real queue. `None`: the case cannot be run in this process any more (clock saturated,
/// or a tracing subscriber is installed).
pub fn exec_rate(case: &Sx) -> Option<Sx> {
    if subscriber_installed() {
        return None;
    }
    let absolute = case.arg(0).num() != 0;
    let ops = dec_ops(case.arg(1));
    let max = MAX_SECS.load(Ordering::SeqCst);
    if !absolute && max > u64::MAX / 2 {
        return None;
    }
    // whole-second shift: in the frame of the case NEXT_CALL <= 0, as the model assumes
    let base: u128 = if absolute { 0 } else { (max as u128 + 2) * NS };
    let set = |rel: u128| {
        let d = dur(base + rel);
        rlv::force_time(Some(d));
        MAX_SECS.fetch_max(d.as_secs(), Ordering::SeqCst);
    };
    set(0);
    let log: Log = Arc::new(Mutex::new(vec![]));
    let mut script = Script::default();
    for (n, o) in ops.iter().enumerate() {
        if matches!(o, ROp::Fail) {
            script.results.insert((1, n as u64), R_VAL);
        }
    }
    let stream = RecStream { log: log.clone(), script, gate: None, flush_calls: 0, before_call: None };
    let (q, join) = BackgroundQueueBuilder::new().capacity(64).flush_interval(Duration::from_millis(20)).build::<Ent>(stream);
    let reports = |log: &Log| log.lock().unwrap().iter().filter(|e| matches!(e, Ev::Report(_))).count();
    let mut obs = vec![];
    let mut stuck = false;
    for (n, o) in ops.iter().enumerate() {
        match o {
            ROp::Set(t) => {
                set(*t);
                obs.push(false);
            }
            ROp::Fail | ROp::Okk => {
                let before = reports(&log);
                q.append(Ent { thread: 1, seq: n as u64, dropped: None });
                // the flush request completes after the writer has consumed the entry (and written its report)
                let mut f = EntrySink::<Ent>::flush_async(&q);
                let lim = Instant::now() + Duration::from_secs(20);
                while !poll_once(&mut f) {
                    if Instant::now() > lim {
                        stuck = true;
                        break;
                    }
                    std::thread::yield_now();
                }
                obs.push(reports(&log) > before);
            }
        }
    }
    drop(q);
    drop(join);
    rlv::force_time(None);
    if stuck {
        return Some(sx::tag(9, vec![]));
    }
    Some(Sx::L(obs.into_iter().map(sx::boolean).collect()))
}

/// A queue built while no tracing subscriber is installed, kept until one is.
pub struct LateSubscriber {
    log: Log,
    q: metrique_writer::sink::BackgroundQueue<Ent>,
    join: metrique_writer::sink::BackgroundQueueJoinHandle,
}

/// To be called while no subscriber is installed.
pub fn late_subscriber_prepare() -> Option<LateSubscriber> {
    if subscriber_installed() {
        return None;
    }
    let log: Log = Arc::new(Mutex::new(vec![]));
    let mut script = Script::default();
    script.results.insert((1, 1), R_VAL);
    script.results.insert((1, 3), R_VAL);
    let stream = RecStream { log: log.clone(), script, gate: None, flush_calls: 0, before_call: None };
    let (q, join) = BackgroundQueueBuilder::new().capacity(64).flush_interval(Duration::from_millis(20)).build::<Ent>(stream);
    Some(LateSubscriber { log, q, join })
}

/// To be called after the subscriber was installed: a validation failure on the old queue, with the limiter's slot free,
/// must go to the subscriber, not into the stream ("written ... when no tracing subscriber is installed").
/// Case (8); answer (number of in-band reports) — the model's answer is (0).
pub fn late_subscriber_check(out: &mut Out, ls: LateSubscriber) {
    let case = sx::tag(8, vec![]);
    if !subscriber_installed() {
        out.count("late_subscriber_skipped");
        return;
    }
    let max = MAX_SECS.load(Ordering::SeqCst);
    if max > u64::MAX / 2 {
        out.count("late_subscriber_skipped");
        return;
    }
    let wait = |q: &metrique_writer::sink::BackgroundQueue<Ent>| {
        let mut f = EntrySink::<Ent>::flush_async(q);
        let lim = Instant::now() + Duration::from_secs(20);
        while !poll_once(&mut f) && Instant::now() < lim {
            std::thread::yield_now();
        }
    };
    for n in 0..5u64 {
        // a fresh second for every entry: the limiter would let each failure through
        let d = Duration::from_secs(max + 2 + 2 * n);
        rlv::force_time(Some(d));
        MAX_SECS.fetch_max(d.as_secs(), Ordering::SeqCst);
        ls.q.append(Ent { thread: 1, seq: n, dropped: None });
        wait(&ls.q);
    }
    rlv::force_time(None);
    drop(ls.q);
    drop(ls.join);
    let reports = ls.log.lock().unwrap().iter().filter(|e| matches!(e, Ev::Report(_))).count();
    let nexts = ls.log.lock().unwrap().iter().filter(|e| matches!(e, Ev::Next(..))).count();
    if nexts != 5 {
        out.fail(format!("late-subscriber queue: {nexts} of 5 entries reached the stream"), &case);
    }
    out.count("late_subscriber_checks");
    out.case(&case, &Sx::L(vec![sx::n(reports as u64)]), true);
}

fn emit(out: &mut Out, case: Sx, key: &str) {
    match exec_rate(&case) {
        Some(imp) => {
            let nt = case.arg(1).list().iter().filter(|o| o.tag() == 1).count() >= 2;
            out.case(&case, &imp, nt);
            out.count(key);
        }
        None => out.count("rate_cases_skipped"),
    }
}

pub fn replay_rate(out: &mut Out, line: &str) {
    emit(out, sx::parse(line), "rate_replayed");
}

fn all_seqs(alphabet: &[u8], len: usize, pre: &mut Vec<u8>, f: &mut dyn FnMut(&[u8])) {
    if pre.len() == len {
        f(pre);
        return;
    }
    for &a in alphabet {
        pre.push(a);
        all_seqs(alphabet, len, pre, f);
        pre.pop();
    }
}

/// The suite: must run while no tracing subscriber is installed.
pub fn run_rate(out: &mut Out, rng: &mut Rng, thorough: bool) {
    // every sequence up to a length over {clock +0.5 s, clock +1 s, failing entry, good entry}
    let maxlen = if thorough { 6 } else { 5 };
    for len in 1..=maxlen {
        let mut cases = vec![];
        all_seqs(&[0, 1, 2, 3], len, &mut vec![], &mut |s| {
            let mut now: u128 = 0;
            let ops: Vec<ROp> = s
                .iter()
                .map(|&a| match a {
                    0 => {
                        now += NS / 2;
                        ROp::Set(now)
                    }
                    1 => {
                        now += NS;
                        ROp::Set(now)
                    }
                    2 => ROp::Fail,
                    _ => ROp::Okk,
                })
                .collect();
            cases.push(rate_case(false, &ops));
        });
        for c in cases {
            emit(out, c, "rate_exhaustive");
        }
    }
    // random: monotone clock with steps around the second boundary and long idle periods, bursts of failures
    let nrand = if thorough { 3000 } else { 300 };
    for _ in 0..nrand {
        let mut now: u128 = rng.below(3) as u128 * 400_000_000;
        let mut ops = vec![ROp::Set(now)];
        for _ in 0..rng.range(3, 16) {
            match rng.below(8) {
                0..=2 => {
                    now += *rng.pick(&[1u128, 300_000_000, 999_999_999, NS, NS + 1, 1_500_000_000, 5 * NS, 3600 * NS, 1_000_000_007 * NS]);
                    ops.push(ROp::Set(now));
                }
                3..=6 => {
                    for _ in 0..rng.range(1, 4) {
                        ops.push(ROp::Fail);
                    }
                }
                _ => ops.push(ROp::Okk),
            }
        }
        emit(out, rate_case(false, &ops), "rate_random");
    }
    // an idle period, then a burst
    for idle in [2u128, 5, 60, 86_400] {
        let mut ops = vec![ROp::Fail, ROp::Set(idle * NS)];
        ops.extend(std::iter::repeat(ROp::Fail).take(40));
        ops.push(ROp::Set(idle * NS + NS));
        ops.extend(std::iter::repeat(ROp::Fail).take(5));
        emit(out, rate_case(false, &ops), "rate_idle_then_burst");
    }
    // the end of the u64 range is a corpus case (corpus/C01/cases.sx): it runs in a process of its own, because the
    // limiter's word stays saturated afterwards and nothing would ever be reported again
}
