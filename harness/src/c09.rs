//! C09 — a full background queue never blocks: it displaces the oldest entry, keeps order, counts losses.
//! Shares the queue family's machinery (see c01.rs); the plans favour tiny capacities, long bursts of appends
//! and low writer priority (a writer that hardly ever runs), the unscheduled runs stall the writer in `next`.
use super::c01::queue_family::{run_family, Focus};
use crate::common::Ctx;

pub fn run(ctx: &Ctx) {
    run_family(
        ctx,
        Focus::Overflow,
        "scheduled: capacities 1-4 (and >32), bursts of 3-14 appends per producer, 1-4 producers, seeded random schedules with writer \
         priority from 1/4 to 7x a producer's; non-trivial = at least 3 appends, writer and producers interleaved, and at least one of: \
         overflow, flush request, stream error, two producers; distinct by hash of the recorded label sequence",
    );
}
