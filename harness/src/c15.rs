//! C15 — wrapper transparency.  A ScriptEntry replays arbitrary item lists through the real traits under
//! every wrapper composition (static types up to depth 2 between erasure points, BoxEntry-erased above);
//! a logging EntryWriter / ValueWriter records what a format would see.
use crate::common::{catch, Ctx, Out, Rng};
use crate::sx::{self, Sx};
use metrique::RootEntry;
use metrique_core::{InflectableEntry, NameStyle};
use metrique_writer::entry::WithGlobalDimensions;
use metrique_writer::format::{Format, FormatExt};
use metrique_writer::stream::EntryIoStreamExt;
use metrique_writer::test_util::TestFlagCtor;
use metrique_writer_core::entry::{EmptyEntry, SampleGroupElement};
use metrique_writer_core::unit::{NegativeScale, PositiveScale};
use metrique_writer_core::value::{FlagConstructor, ForceFlag, FormattedValue, MetricOptions, NotLifted, ValueFormatter, WithDimensions};
use metrique_writer_core::{
    BoxEntry, Entry, EntryConfig, EntryIoStream, EntryWriter, IoStreamError, MetricFlags, Observation, Unit,
    ValidationError, Value, ValueWriter,
};
use metrique_writer_format_emf::{HighStorageResolutionCtor, NoMetricCtor};
use std::any::Any;
use std::borrow::Cow;
use std::cell::RefCell;
use std::collections::HashSet;
use std::marker::PhantomData;
use std::rc::Rc;
use std::sync::Arc;
use std::time::{Duration, SystemTime, UNIX_EPOCH};

// ------------------------------------------------------------------------------------------- data
type Dims = Vec<(String, String)>;

#[derive(Clone, Copy, Debug, PartialEq)]
enum Flag { Emf(u8), User(u8), Opaque(u8) }
#[derive(Clone, Copy, Debug, PartialEq)]
enum Obs { U(u64), F(u64), R(u64, u64) }
#[derive(Clone, Debug, PartialEq)]
enum VCall { None, Str(String), Err(Vec<String>), Metric { os: Vec<Obs>, unit: u32, dims: Dims, fl: Option<Flag> }, Panic }
#[derive(Clone, Debug)]
enum VTree { Plain(VCall), Cont(u8, Box<VTree>), OptNone, OptSome(Box<VTree>), WithDims(Box<VTree>, Dims), Force(Box<VTree>, Flag), Formatted(Vec<u8>, VCall), ToStr(String) }
#[derive(Clone, Debug)]
enum SItem { Ts(u64), Cfg(u32), Val(String, VTree, u8) }
#[derive(Clone, Debug)]
enum ETree {
    Plain(Vec<SItem>, Dims), Empty, Boxed(Box<ETree>), Merged(Box<ETree>, Box<ETree>), MergedRef(Box<ETree>, Box<ETree>),
    Cont(u8, Box<ETree>), OptNone, OptSome(Box<ETree>), WithDims(Box<ETree>, Dims), GDims(Box<ETree>, Dims, Vec<String>),
    Force(Box<ETree>, Flag), Root(Box<ETree>), ContI(u8, Box<ETree>), OptNoneI, OptSomeI(Box<ETree>),
    WithDimsI(Box<ETree>, Dims), ForceI(Box<ETree>, Flag),
}
#[derive(Clone, Debug)]
enum STree { Term(u32), MergeGlobals(Box<STree>, ETree), MergeGDims(Box<STree>, Dims, Vec<String>), Force(Box<STree>, Flag), Tee(Box<STree>, Box<STree>), OutputTo(Box<STree>) }
#[derive(Clone, Debug, PartialEq)]
enum Item { Ts(u64), Cfg(u32), Val(String, VCall), PanicOutside }

// ------------------------------------------------------------------------------------------- wire
fn enc_dims(d: &Dims) -> Sx { Sx::L(d.iter().map(|(k, v)| Sx::L(vec![sx::b(k), sx::b(v)])).collect()) }
fn enc_strs(d: &[String]) -> Sx { Sx::L(d.iter().map(|k| sx::b(k)).collect()) }
fn enc_flag(f: &Flag) -> Sx {
    match *f { Flag::Emf(m) => sx::tag(0, vec![sx::n(m)]), Flag::User(k) => sx::tag(1, vec![sx::n(k)]), Flag::Opaque(k) => sx::tag(2, vec![sx::n(k)]) }
}
fn enc_obs(o: &Obs) -> Sx {
    match *o { Obs::U(n) => sx::tag(0, vec![sx::n(n)]), Obs::F(b) => sx::tag(1, vec![sx::n(b)]), Obs::R(t, n) => sx::tag(2, vec![sx::n(t), sx::n(n)]) }
}
fn enc_vcall(c: &VCall) -> Sx {
    match c {
        VCall::None => sx::tag(0, vec![]),
        VCall::Str(s) => sx::tag(1, vec![sx::b(s)]),
        VCall::Err(m) => sx::tag(2, vec![enc_strs(m)]),
        VCall::Metric { os, unit, dims, fl } => sx::tag(3, vec![Sx::L(os.iter().map(enc_obs).collect()), sx::n(*unit), enc_dims(dims), sx::opt(fl.as_ref().map(enc_flag))]),
        VCall::Panic => sx::tag(4, vec![]),
    }
}
fn enc_vtree(v: &VTree) -> Sx {
    match v {
        VTree::Plain(c) => sx::tag(0, vec![enc_vcall(c)]),
        VTree::Cont(k, v) => sx::tag(1, vec![sx::n(*k), enc_vtree(v)]),
        VTree::OptNone => sx::tag(2, vec![]),
        VTree::OptSome(v) => sx::tag(3, vec![enc_vtree(v)]),
        VTree::WithDims(v, d) => sx::tag(4, vec![enc_vtree(v), enc_dims(d)]),
        VTree::Force(v, f) => sx::tag(5, vec![enc_vtree(v), enc_flag(f)]),
        VTree::Formatted(ls, c) => sx::tag(8, vec![Sx::L(ls.iter().map(|k| sx::n(*k)).collect()), enc_vcall(c)]),
        VTree::ToStr(st) => sx::tag(9, vec![sx::b(st)]),
    }
}
fn enc_sitem(i: &SItem) -> Sx {
    match i {
        SItem::Ts(t) => sx::tag(0, vec![sx::n(*t)]),
        SItem::Cfg(c) => sx::tag(1, vec![sx::n(*c)]),
        SItem::Val(n, v, fl) => sx::tag(2, vec![sx::b(n), enc_vtree(v), sx::n(*fl)]),
    }
}
fn enc_etree(e: &ETree) -> Sx {
    use ETree::*;
    match e {
        Plain(s, g) => sx::tag(0, vec![Sx::L(s.iter().map(enc_sitem).collect()), enc_dims(g)]),
        Empty => sx::tag(1, vec![]),
        Boxed(e) => sx::tag(2, vec![enc_etree(e)]),
        Merged(a, b) => sx::tag(3, vec![enc_etree(a), enc_etree(b)]),
        MergedRef(a, b) => sx::tag(4, vec![enc_etree(a), enc_etree(b)]),
        Cont(k, e) => sx::tag(5, vec![sx::n(*k), enc_etree(e)]),
        OptNone => sx::tag(6, vec![]),
        OptSome(e) => sx::tag(7, vec![enc_etree(e)]),
        WithDims(e, d) => sx::tag(8, vec![enc_etree(e), enc_dims(d)]),
        GDims(e, d, deny) => sx::tag(9, vec![enc_etree(e), enc_dims(d), enc_strs(deny)]),
        Force(e, f) => sx::tag(10, vec![enc_etree(e), enc_flag(f)]),
        Root(e) => sx::tag(11, vec![enc_etree(e)]),
        ContI(k, e) => sx::tag(12, vec![sx::n(*k), enc_etree(e)]),
        OptNoneI => sx::tag(13, vec![]),
        OptSomeI(e) => sx::tag(14, vec![enc_etree(e)]),
        WithDimsI(e, d) => sx::tag(15, vec![enc_etree(e), enc_dims(d)]),
        ForceI(e, f) => sx::tag(16, vec![enc_etree(e), enc_flag(f)]),
    }
}
fn enc_stree(s: &STree) -> Sx {
    match s {
        STree::Term(id) => sx::tag(0, vec![sx::n(*id)]),
        STree::MergeGlobals(s, g) => sx::tag(1, vec![enc_stree(s), enc_etree(g)]),
        STree::MergeGDims(s, d, deny) => sx::tag(2, vec![enc_stree(s), enc_dims(d), enc_strs(deny)]),
        STree::Force(s, f) => sx::tag(3, vec![enc_stree(s), enc_flag(f)]),
        STree::Tee(a, b) => sx::tag(4, vec![enc_stree(a), enc_stree(b)]),
        STree::OutputTo(s) => sx::tag(5, vec![enc_stree(s)]),
    }
}
fn st(x: &Sx) -> String { String::from_utf8_lossy(x.bytes()).into_owned() }
fn dec_dims(x: &Sx) -> Dims { x.list().iter().map(|p| (st(&p.list()[0]), st(&p.list()[1]))).collect() }
fn dec_strs(x: &Sx) -> Vec<String> { x.list().iter().map(st).collect() }
fn dec_flag(x: &Sx) -> Flag {
    let k = x.arg(0).num() as u8;
    match x.tag() { 0 => Flag::Emf(k), 1 => Flag::User(k), _ => Flag::Opaque(k) }
}
fn dec_obs(x: &Sx) -> Obs {
    match x.tag() { 0 => Obs::U(x.arg(0).num() as u64), 1 => Obs::F(x.arg(0).num() as u64), _ => Obs::R(x.arg(0).num() as u64, x.arg(1).num() as u64) }
}
fn dec_vcall(x: &Sx) -> VCall {
    match x.tag() {
        0 => VCall::None,
        1 => VCall::Str(st(x.arg(0))),
        2 => VCall::Err(dec_strs(x.arg(0))),
        3 => VCall::Metric { os: x.arg(0).list().iter().map(dec_obs).collect(), unit: x.arg(1).num() as u32, dims: dec_dims(x.arg(2)), fl: x.arg(3).list().first().map(dec_flag) },
        _ => VCall::Panic,
    }
}
fn dec_vtree(x: &Sx) -> VTree {
    match x.tag() {
        0 => VTree::Plain(dec_vcall(x.arg(0))),
        1 => VTree::Cont(x.arg(0).num() as u8, Box::new(dec_vtree(x.arg(1)))),
        2 => VTree::OptNone,
        3 => VTree::OptSome(Box::new(dec_vtree(x.arg(0)))),
        4 => VTree::WithDims(Box::new(dec_vtree(x.arg(0))), dec_dims(x.arg(1))),
        5 => VTree::Force(Box::new(dec_vtree(x.arg(0))), dec_flag(x.arg(1))),
        8 => VTree::Formatted(x.arg(0).list().iter().map(|k| k.num() as u8).collect(), dec_vcall(x.arg(1))),
        _ => VTree::ToStr(st(x.arg(0))),
    }
}
fn dec_sitem(x: &Sx) -> SItem {
    match x.tag() {
        0 => SItem::Ts(x.arg(0).num() as u64),
        1 => SItem::Cfg(x.arg(0).num() as u32),
        _ => SItem::Val(st(x.arg(0)), dec_vtree(x.arg(1)), x.arg(2).num() as u8),
    }
}
fn dec_etree(x: &Sx) -> ETree {
    use ETree::*;
    let sub = |i: usize| Box::new(dec_etree(x.arg(i)));
    match x.tag() {
        0 => Plain(x.arg(0).list().iter().map(dec_sitem).collect(), dec_dims(x.arg(1))),
        1 => Empty,
        2 => Boxed(sub(0)),
        3 => Merged(sub(0), sub(1)),
        4 => MergedRef(sub(0), sub(1)),
        5 => Cont(x.arg(0).num() as u8, sub(1)),
        6 => OptNone,
        7 => OptSome(sub(0)),
        8 => WithDims(sub(0), dec_dims(x.arg(1))),
        9 => GDims(sub(0), dec_dims(x.arg(1)), dec_strs(x.arg(2))),
        10 => Force(sub(0), dec_flag(x.arg(1))),
        11 => Root(sub(0)),
        12 => ContI(x.arg(0).num() as u8, sub(1)),
        13 => OptNoneI,
        14 => OptSomeI(sub(0)),
        15 => WithDimsI(sub(0), dec_dims(x.arg(1))),
        _ => ForceI(sub(0), dec_flag(x.arg(1))),
    }
}
fn dec_stree(x: &Sx) -> STree {
    match x.tag() {
        0 => STree::Term(x.arg(0).num() as u32),
        1 => STree::MergeGlobals(Box::new(dec_stree(x.arg(0))), dec_etree(x.arg(1))),
        2 => STree::MergeGDims(Box::new(dec_stree(x.arg(0))), dec_dims(x.arg(1)), dec_strs(x.arg(2))),
        3 => STree::Force(Box::new(dec_stree(x.arg(0))), dec_flag(x.arg(1))),
        4 => STree::Tee(Box::new(dec_stree(x.arg(0))), Box::new(dec_stree(x.arg(1)))),
        _ => STree::OutputTo(Box::new(dec_stree(x.arg(0)))),
    }
}
fn enc_item(i: &Item) -> Sx {
    match i {
        Item::Ts(t) => sx::tag(0, vec![sx::n(*t)]),
        Item::Cfg(c) => sx::tag(1, vec![sx::n(*c)]),
        Item::Val(n, c) => sx::tag(2, vec![sx::b(n), enc_vcall(c)]),
        Item::PanicOutside => sx::tag(5, vec![]),
    }
}

// ------------------------------------------------------------------------------------------- flags, units
/// A user-defined option type with a non-commutative merge: a.try_merge(b) = (2a + b + 1) mod 16.
#[derive(Debug)]
struct UserOpt(u8);
static USER_TAB: [UserOpt; 16] = [
    UserOpt(0), UserOpt(1), UserOpt(2), UserOpt(3), UserOpt(4), UserOpt(5), UserOpt(6), UserOpt(7),
    UserOpt(8), UserOpt(9), UserOpt(10), UserOpt(11), UserOpt(12), UserOpt(13), UserOpt(14), UserOpt(15),
];
impl MetricOptions for UserOpt {
    fn try_merge(&self, other: &dyn MetricOptions) -> Option<MetricFlags<'static>> {
        (other as &dyn Any).downcast_ref::<UserOpt>().map(|o| MetricFlags::upcast(&USER_TAB[((2 * self.0 as usize) + o.0 as usize + 1) % 16]))
    }
}
/// An option type that keeps the trait's default try_merge (like test_util::TestFlagOpt).
#[derive(Debug)]
struct OtherOpaque;
impl MetricOptions for OtherOpaque {}
static OTHER_OPAQUE: OtherOpaque = OtherOpaque;
struct UserCtor<const K: usize>;
impl<const K: usize> FlagConstructor for UserCtor<K> {
    fn construct() -> MetricFlags<'static> { MetricFlags::upcast(&USER_TAB[K]) }
}
fn flags_of(f: Option<Flag>) -> MetricFlags<'static> {
    match f {
        None => MetricFlags::empty(),
        Some(Flag::Emf(0)) => HighStorageResolutionCtor::construct(),
        Some(Flag::Emf(_)) => NoMetricCtor::construct(),
        Some(Flag::User(k)) => MetricFlags::upcast(&USER_TAB[(k % 16) as usize]),
        Some(Flag::Opaque(0)) => TestFlagCtor::construct(),
        Some(Flag::Opaque(_)) => MetricFlags::upcast(&OTHER_OPAQUE),
    }
}
fn flag_seen(f: MetricFlags<'_>) -> Option<Flag> {
    if let Some(u) = f.downcast::<UserOpt>() { return Some(Flag::User(u.0)); }
    if f.downcast::<OtherOpaque>().is_some() { return Some(Flag::Opaque(1)); }
    let d = format!("{:?}", f);
    if d == "MetricFlags(None)" { None }
    else if d.contains("HighStorageResolution") { Some(Flag::Emf(0)) }
    else if d.contains("NoMetric") { Some(Flag::Emf(1)) }
    else if d.contains("TestFlagOpt") { Some(Flag::Opaque(0)) }
    else { Some(Flag::Opaque(99)) }
}
/// The flags a ForceFlag wrapper can force in this harness (one FlagConstructor type each).
const FORCE_MENU: [Flag; 4] = [Flag::Emf(0), Flag::Emf(1), Flag::User(2), Flag::Opaque(0)];

const UNITS: [Unit; 14] = [
    Unit::None, Unit::Count, Unit::Percent, Unit::Second(NegativeScale::Micro), Unit::Second(NegativeScale::Milli),
    Unit::Second(NegativeScale::One), Unit::Byte(PositiveScale::One), Unit::Byte(PositiveScale::Kilo),
    Unit::Byte(PositiveScale::Tera), Unit::BytePerSecond(PositiveScale::Mega), Unit::Bit(PositiveScale::Giga),
    Unit::BitPerSecond(PositiveScale::One), Unit::Custom("Furlongs"), Unit::Custom(""),
];
fn unit_of(c: u32) -> Unit { UNITS[(c as usize) % UNITS.len()] }
fn unit_seen(u: Unit) -> u32 { UNITS.iter().position(|x| *x == u).map(|p| p as u32).unwrap_or(999) }
fn obs_of(o: &Obs) -> Observation {
    match *o { Obs::U(n) => Observation::Unsigned(n), Obs::F(b) => Observation::Floating(f64::from_bits(b)), Obs::R(t, n) => Observation::Repeated { total: f64::from_bits(t), occurrences: n } }
}
fn obs_seen(o: Observation) -> Obs {
    match o {
        Observation::Unsigned(n) => Obs::U(n),
        Observation::Floating(f) => Obs::F(f.to_bits()),
        Observation::Repeated { total, occurrences } => Obs::R(total.to_bits(), occurrences),
        _ => Obs::U(0xdead),
    }
}
fn mk_err(m: &[String]) -> ValidationError {
    let mut e = ValidationError::invalid(m.first().cloned().unwrap_or_default());
    for x in m.iter().skip(1) { e.extend(ValidationError::invalid(x.clone())); }
    e
}

// ------------------------------------------------------------------------------------------- script values
/// A user value performing exactly one scripted call.
#[derive(Clone, Debug)]
struct PV(VCall);
impl Value for PV {
    fn write(&self, w: impl ValueWriter) {
        match &self.0 {
            VCall::None => {}
            VCall::Str(s) => w.string(s),
            VCall::Err(m) => { if m.len() == 1 && m[0].len() % 2 == 0 { w.invalid(m[0].clone()) } else { w.error(mk_err(m)) } }
            VCall::Metric { os, unit, dims, fl } => w.metric(os.iter().map(obs_of), unit_of(*unit), dims.iter().map(|(k, v)| (&**k, &**v)), flags_of(*fl)),
            VCall::Panic => panic!("script value panics"),
        }
    }
}
#[derive(Clone, Debug)]
enum VWr { Cont(u8), Some, WithDims(Dims), Force(Flag) }
/// static value-wrapper chains up to depth 3 (the Value trait is not object safe and has no erasure)
trait VDepth { fn go<V: Value + Clone, W: ValueWriter>(v: V, ws: &[VWr], w: W); }
struct VZ;
struct VS<D>(PhantomData<D>);
impl VDepth for VZ {
    fn go<V: Value + Clone, W: ValueWriter>(v: V, ws: &[VWr], w: W) {
        assert!(ws.is_empty(), "harness: value chain deeper than the static limit");
        v.write(w)
    }
}
impl<D: VDepth> VDepth for VS<D> {
    fn go<V: Value + Clone, W: ValueWriter>(v: V, ws: &[VWr], w: W) {
        let Some((x, rest)) = ws.split_first() else { return v.write(w) };
        match x {
            VWr::Cont(0) => D::go(&v, rest, w),
            VWr::Cont(1) => D::go(Box::new(v), rest, w),
            VWr::Cont(2) => D::go(Arc::new(v), rest, w),
            VWr::Cont(3) => D::go(Cow::<V>::Owned(v), rest, w),
            VWr::Cont(_) => D::go(Cow::Borrowed(&v), rest, w),
            VWr::Some => D::go(Some(v), rest, w),
            VWr::WithDims(d) => D::go(WithDimensions::<V, 1>::new_with_dimensions(v, d.iter().cloned()), rest, w),
            VWr::Force(Flag::Emf(0)) => D::go(ForceFlag::<V, HighStorageResolutionCtor>::from(v), rest, w),
            VWr::Force(Flag::Emf(_)) => D::go(ForceFlag::<V, NoMetricCtor>::from(v), rest, w),
            VWr::Force(Flag::User(_)) => D::go(ForceFlag::<V, UserCtor<2>>::from(v), rest, w),
            VWr::Force(Flag::Opaque(_)) => D::go(ForceFlag::<V, TestFlagCtor>::from(v), rest, w),
        }
    }
}
type VTop = VS<VS<VZ>>;
const VDEPTH: usize = 2;
/// A user value given as a static chain of wrappers over a scripted call (or over `None::<PV>`).
#[derive(Clone, Debug)]
enum Leaf { Plain(PV), None, Formatted(Vec<u8>, PV), ToStr(String) }
#[derive(Clone, Debug)]
struct RV { leaf: Leaf, ws: Vec<VWr> }
impl Value for RV {
    fn write(&self, w: impl ValueWriter) {
        match &self.leaf {
            Leaf::Plain(pv) => VTop::go(pv.clone(), &self.ws, w),
            Leaf::None => VTop::go(None::<PV>, &self.ws, w),
            // lifts are listed outermost first; the type is built from the base outwards
            Leaf::Formatted(ls, pv) => { let inner: Vec<u8> = ls.iter().rev().copied().collect(); FTop::fgo(pv.clone(), &inner, w) }
            Leaf::ToStr(st) => FormattedValue::<String, metrique_writer_core::value::ToString, NotLifted>::new(st).write(w),
        }
    }
}
/// A user formatter for the scripted base type; lifted over &, Option, Box, Arc, Cow by the blanket impls.
struct ScriptFmt;
impl ValueFormatter<PV> for ScriptFmt { fn format_value(w: impl ValueWriter, v: &PV) { v.write(w) } }
trait FDepth { fn fgo<T: Clone, W: ValueWriter>(t: T, ls: &[u8], w: W) where ScriptFmt: ValueFormatter<T>; }
struct FZ;
struct FS<D>(PhantomData<D>);
impl FDepth for FZ {
    fn fgo<T: Clone, W: ValueWriter>(t: T, ls: &[u8], w: W) where ScriptFmt: ValueFormatter<T> {
        assert!(ls.is_empty(), "harness: formatter lifting deeper than the static limit");
        FormattedValue::<T, ScriptFmt>::new(&t).write(w)
    }
}
impl<D: FDepth> FDepth for FS<D> {
    fn fgo<T: Clone, W: ValueWriter>(t: T, ls: &[u8], w: W) where ScriptFmt: ValueFormatter<T> {
        let Some((k, rest)) = ls.split_first() else { return FormattedValue::<T, ScriptFmt>::new(&t).write(w) };
        match k {
            0 => D::fgo::<&T, W>(&t, rest, w),
            1 => D::fgo::<Option<T>, W>(Some(t), rest, w),
            2 => D::fgo::<Option<T>, W>(None, rest, w),
            3 => D::fgo::<Box<T>, W>(Box::new(t), rest, w),
            4 => D::fgo::<Arc<T>, W>(Arc::new(t), rest, w),
            _ => D::fgo::<Cow<'_, T>, W>(Cow::Borrowed(&t), rest, w),
        }
    }
}
type FTop = FS<FS<FZ>>;
fn flatten_v(v: &VTree) -> RV {
    let mut ws = vec![];
    let mut cur = v;
    loop {
        match cur {
            VTree::Plain(c) => { ws.reverse(); return RV { leaf: Leaf::Plain(PV(c.clone())), ws }; }
            VTree::OptNone => { ws.reverse(); return RV { leaf: Leaf::None, ws }; }
            VTree::Formatted(ls, c) => { ws.reverse(); return RV { leaf: Leaf::Formatted(ls.clone(), PV(c.clone())), ws }; }
            VTree::ToStr(st) => { ws.reverse(); return RV { leaf: Leaf::ToStr(st.clone()), ws }; }
            VTree::Cont(k, v) => { ws.push(VWr::Cont(*k)); cur = v; }
            VTree::OptSome(v) => { ws.push(VWr::Some); cur = v; }
            VTree::WithDims(v, d) => { ws.push(VWr::WithDims(d.clone())); cur = v; }
            VTree::Force(v, f) => { ws.push(VWr::Force(*f)); cur = v; }
        }
    }
}
fn vdepth(v: &VTree) -> usize {
    match v {
        VTree::Plain(_) => 0, VTree::OptNone => 1,
        VTree::Cont(_, v) | VTree::OptSome(v) | VTree::WithDims(v, _) | VTree::Force(v, _) => match &**v { VTree::Formatted(..) | VTree::ToStr(_) => 99, _ => 1 + vdepth(v) },
        VTree::Formatted(ls, _) => if ls.len() <= VDEPTH { 1 } else { 99 },
        VTree::ToStr(_) => 1,
    }
}

// ------------------------------------------------------------------------------------------- script entries
#[derive(Debug)]
struct Cfg(u32);
impl EntryConfig for Cfg {}
enum SEItem<V> { Ts(SystemTime), Cfg(Cfg), Val(String, V, u8) }
impl<V: Clone> Clone for SEItem<V> {
    fn clone(&self) -> Self { match self { SEItem::Ts(t) => SEItem::Ts(*t), SEItem::Cfg(c) => SEItem::Cfg(Cfg(c.0)), SEItem::Val(n, v, f) => SEItem::Val(n.clone(), v.clone(), *f) } }
}
/// A user entry performing exactly the scripted calls. `SE<PV>`: plain values (used under static wrapper chains);
/// `SE<RV>`: values with their own wrapper chains (used at top level or directly under BoxEntry).
#[derive(Clone)]
struct SE<V> { items: Vec<SEItem<V>>, group: Dims }
impl<V: Value> SE<V> {
    fn replay<'a>(&'a self, w: &mut impl EntryWriter<'a>) {
        for it in &self.items {
            match it {
                SEItem::Ts(t) => w.timestamp(*t),
                SEItem::Cfg(c) => w.config(c),
                SEItem::Val(n, v, 0) => w.value(n.as_str(), v),
                SEItem::Val(n, v, 1) => w.value(n.clone(), v),
                SEItem::Val(n, v, _) => w.value(Cow::Borrowed(n.as_str()), v),
            }
        }
    }
    fn grp(&self) -> impl Iterator<Item = SampleGroupElement> {
        self.group.iter().map(|(k, v)| (Cow::Owned(k.clone()), Cow::Owned(v.clone()))).collect::<Vec<_>>().into_iter()
    }
}
impl<V: Value> Entry for SE<V> {
    fn write<'a>(&'a self, w: &mut impl EntryWriter<'a>) { self.replay(w) }
    fn sample_group(&self) -> impl Iterator<Item = SampleGroupElement> { self.grp() }
}
impl<NS: NameStyle, V: Value> InflectableEntry<NS> for SE<V> {
    fn write<'a>(&'a self, w: &mut impl EntryWriter<'a>) { self.replay(w) }
    fn sample_group(&self) -> impl Iterator<Item = SampleGroupElement> { self.grp() }
}
fn is_rich(items: &[SItem]) -> bool { items.iter().any(|i| matches!(i, SItem::Val(_, v, _) if !matches!(v, VTree::Plain(_)))) }
fn mk_se<V>(items: &[SItem], group: &Dims, f: impl Fn(&VTree) -> V) -> SE<V> {
    SE {
        items: items.iter().map(|i| match i {
            SItem::Ts(t) => SEItem::Ts(UNIX_EPOCH + Duration::from_nanos(*t)),
            SItem::Cfg(c) => SEItem::Cfg(Cfg(*c)),
            SItem::Val(n, v, fl) => SEItem::Val(n.clone(), f(v), *fl),
        }).collect(),
        group: group.clone(),
    }
}
fn mk_plain(items: &[SItem], group: &Dims) -> SE<PV> {
    mk_se(items, group, |v| match v { VTree::Plain(c) => PV(c.clone()), _ => panic!("harness: rich value in a plain script") })
}
fn mk_rich(items: &[SItem], group: &Dims) -> SE<RV> { mk_se(items, group, flatten_v) }

// ------------------------------------------------------------------------------------------- the recording format
struct Logger<'l> { items: &'l mut Vec<Item> }
struct VLogger<'l>(&'l mut VCall);
impl<'a, 'l> EntryWriter<'a> for Logger<'l> {
    fn timestamp(&mut self, t: SystemTime) {
        self.items.push(Item::Ts(t.duration_since(UNIX_EPOCH).map(|d| d.as_nanos() as u64).unwrap_or(u64::MAX)));
    }
    fn value(&mut self, name: impl Into<Cow<'a, str>>, value: &(impl Value + ?Sized)) {
        let name: Cow<'a, str> = name.into();
        // pre-set to Panic: if the value unwinds, this is what stays recorded
        self.items.push(Item::Val(name.into_owned(), VCall::Panic));
        let mut slot = VCall::None;
        value.write(VLogger(&mut slot));
        if let Some(Item::Val(_, c)) = self.items.last_mut() { *c = slot; }
    }
    fn config(&mut self, config: &'a dyn EntryConfig) {
        let c = (config as &dyn Any).downcast_ref::<Cfg>().map(|c| c.0).unwrap_or(9999);
        self.items.push(Item::Cfg(c));
    }
}
impl ValueWriter for VLogger<'_> {
    fn string(self, value: &str) { *self.0 = VCall::Str(value.to_string()); }
    fn metric<'a>(self, distribution: impl IntoIterator<Item = Observation>, unit: Unit, dimensions: impl IntoIterator<Item = (&'a str, &'a str)>, flags: MetricFlags<'_>) {
        *self.0 = VCall::Metric {
            os: distribution.into_iter().map(obs_seen).collect(),
            unit: unit_seen(unit),
            dims: dimensions.into_iter().map(|(k, v)| (k.to_string(), v.to_string())).collect(),
            fl: flag_seen(flags),
        };
    }
    fn error(self, error: ValidationError) {
        *self.0 = VCall::Err(error.to_string().split(", ").map(|s| s.to_string()).collect());
    }
}
/// What a terminal recorded for one entry: the items and the sample group.
#[derive(Default, Clone)]
struct Rec { items: Vec<Item>, group: Dims }
/// object-safe view of an entry for the recorder (keeps `record` itself out of the per-type instantiations)
trait Recordable { fn w(&self, l: &mut Logger<'_>); fn g(&self) -> Dims; }
impl<E: Entry + ?Sized> Recordable for E {
    fn w(&self, l: &mut Logger<'_>) { Entry::write(self, l) }
    fn g(&self) -> Dims { Entry::sample_group(self).map(|(k, v)| (k.into_owned(), v.into_owned())).collect() }
}
fn record(e: &dyn Recordable) -> Rec {
    let mut rec = Rec::default();
    let ok = catch(|| e.w(&mut Logger { items: &mut rec.items })).is_some();
    if !ok && !matches!(rec.items.last(), Some(Item::Val(_, VCall::Panic))) { rec.items.push(Item::PanicOutside); }
    rec.group = catch(|| e.g()).unwrap_or_else(|| vec![("!panic".into(), "".into())]);
    rec
}
fn enc_rec(r: &Rec) -> Sx { Sx::L(vec![Sx::L(r.items.iter().map(enc_item).collect()), enc_dims(&r.group)]) }

// ------------------------------------------------------------------------------------------- entry wrapper chains
thread_local! { static LEAKS: RefCell<Vec<Box<dyn FnOnce()>>> = RefCell::new(vec![]); }
/// `&'static T` for the duration of one case (freed by `free_leaks`, outermost first).
fn leak<T: 'static>(v: T) -> &'static T {
    let p: *mut T = Box::into_raw(Box::new(v));
    LEAKS.with(|l| l.borrow_mut().push(Box::new(move || unsafe { drop(Box::from_raw(p)) })));
    unsafe { &*p }
}
fn free_leaks() { LEAKS.with(|l| { let mut v = l.borrow_mut(); while let Some(f) = v.pop() { f(); } }); }

#[derive(Clone, Debug)]
enum EW { Cont(u8), Some, WithDims(Dims), GDims(Dims, Vec<String>), Force(Flag), Boxed, Root, ContI(u8), SomeI, WithDimsI(Dims), ForceI(Flag) }

/// What happens to the finished static type: written into the recording format (`Top`) or erased (`ToBox`).
trait Fin {
    type Out;
    fn cs<E: Entry + Clone + Send + Sync + 'static>(self, e: E) -> Self::Out;
    fn s<E: Entry + Send + 'static>(self, e: E) -> Self::Out;
    fn n<E: Entry + 'static>(self, e: E) -> Self::Out;
}
struct Top;
impl Fin for Top {
    type Out = Rec;
    fn cs<E: Entry + Clone + Send + Sync + 'static>(self, e: E) -> Rec { record(&e) }
    fn s<E: Entry + Send + 'static>(self, e: E) -> Rec { record(&e) }
    fn n<E: Entry + 'static>(self, e: E) -> Rec { record(&e) }
}
struct ToBox;
impl Fin for ToBox {
    type Out = BoxEntry;
    fn cs<E: Entry + Clone + Send + Sync + 'static>(self, e: E) -> BoxEntry { e.boxed() }
    fn s<E: Entry + Send + 'static>(self, e: E) -> BoxEntry { BoxEntry::new(e) }
    fn n<E: Entry + 'static>(self, _e: E) -> BoxEntry { panic!("harness: tree not buildable (a type that is not Send under BoxEntry)") }
}

fn gd<E>(e: E, d: &Dims, deny: &[String]) -> WithGlobalDimensions<E, 1> {
    WithGlobalDimensions::new_with_global_dimensions(e, d.iter().cloned(), deny.iter().cloned().map(Cow::Owned).collect::<HashSet<Cow<'static, str>>>())
}
fn wd<E>(e: E, d: &Dims) -> WithDimensions<E, 0> { WithDimensions::new_with_dimensions(e, d.iter().cloned()) }

/// The arms that keep a type in its world: Box, Option, WithDimensions, WithGlobalDimensions, ForceFlag.
macro_rules! same_world {
    ($D:ident, $world:ident, $e:ident, $x:ident, $rest:ident, $fin:ident) => {
        match $x {
            EW::Cont(1) => $D::$world(Box::new($e), $rest, $fin),
            EW::Some => $D::$world(Some($e), $rest, $fin),
            EW::WithDims(d) => $D::$world(wd($e, d), $rest, $fin),
            EW::GDims(d, deny) => $D::$world(gd($e, d, deny), $rest, $fin),
            EW::Force(Flag::Emf(0)) => $D::$world(ForceFlag::<E, HighStorageResolutionCtor>::from($e), $rest, $fin),
            EW::Force(Flag::Emf(_)) => $D::$world(ForceFlag::<E, NoMetricCtor>::from($e), $rest, $fin),
            EW::Force(Flag::User(_)) => $D::$world(ForceFlag::<E, UserCtor<2>>::from($e), $rest, $fin),
            EW::Force(Flag::Opaque(_)) => $D::$world(ForceFlag::<E, TestFlagCtor>::from($e), $rest, $fin),
            other => panic!("harness: tree not buildable ({:?} in world {})", other, stringify!($world)),
        }
    };
}

/// Static wrapper chains: at most EDEPTH wrappers between two erasure points (a base or a BoxEntry).
/// Worlds: cs = Clone + Send + Sync, s = Send only (after BoxEntry / RootEntry), n = neither (a shared
/// pointer to something that is not Sync), i = InflectableEntry (below RootEntry).
trait Depth {
    fn cs<E: Entry + Clone + Send + Sync + 'static, F: Fin>(e: E, ws: &[EW], fin: F) -> F::Out;
    fn s<E: Entry + Send + 'static, F: Fin>(e: E, ws: &[EW], fin: F) -> F::Out;
    fn n<E: Entry + 'static, F: Fin>(e: E, ws: &[EW], fin: F) -> F::Out;
    fn i<E: InflectableEntry + Clone + Send + Sync + 'static, F: Fin>(e: E, ws: &[EW], fin: F) -> F::Out;
}
struct DZ;
struct DS<D>(PhantomData<D>);
type DTop = DS<DS<DZ>>;
/// bases other than a plain script or a BoxEntry get one static wrapper
type DOne = DS<DZ>;
const EDEPTH: usize = 2;
impl Depth for DZ {
    fn cs<E: Entry + Clone + Send + Sync + 'static, F: Fin>(e: E, ws: &[EW], fin: F) -> F::Out {
        match ws.split_first() {
            None => fin.cs(e),
            Some((EW::Boxed, rest)) => DTop::s(e.boxed(), rest, fin),
            Some((x, _)) => panic!("harness: static depth exceeded at {:?}", x),
        }
    }
    fn s<E: Entry + Send + 'static, F: Fin>(e: E, ws: &[EW], fin: F) -> F::Out {
        match ws.split_first() {
            None => fin.s(e),
            Some((EW::Boxed, rest)) => DTop::s(BoxEntry::new(e), rest, fin),
            Some((x, _)) => panic!("harness: static depth exceeded at {:?}", x),
        }
    }
    fn n<E: Entry + 'static, F: Fin>(e: E, ws: &[EW], fin: F) -> F::Out {
        match ws.split_first() { None => fin.n(e), Some((x, _)) => panic!("harness: static depth exceeded at {:?}", x) }
    }
    fn i<E: InflectableEntry + Clone + Send + Sync + 'static, F: Fin>(_e: E, ws: &[EW], _fin: F) -> F::Out {
        panic!("harness: static depth exceeded below RootEntry at {:?}", ws.first())
    }
}
impl<D: Depth> Depth for DS<D> {
    fn cs<E: Entry + Clone + Send + Sync + 'static, F: Fin>(e: E, ws: &[EW], fin: F) -> F::Out {
        let Some((x, rest)) = ws.split_first() else { return fin.cs(e) };
        match x {
            EW::Boxed => DTop::s(e.boxed(), rest, fin),
            EW::Cont(0) => D::cs(leak(e), rest, fin),
            EW::Cont(2) => D::cs(Arc::new(e), rest, fin),
            EW::Cont(k) if *k >= 3 => D::cs(Cow::<'static, E>::Owned(e), rest, fin),
            x => same_world!(D, cs, e, x, rest, fin),
        }
    }
    fn s<E: Entry + Send + 'static, F: Fin>(e: E, ws: &[EW], fin: F) -> F::Out {
        let Some((x, rest)) = ws.split_first() else { return fin.s(e) };
        match x {
            EW::Boxed => DTop::s(BoxEntry::new(e), rest, fin),
            EW::Cont(0) => D::n(leak(e), rest, fin),
            EW::Cont(2) => D::n(Arc::new(e), rest, fin),
            x => same_world!(D, s, e, x, rest, fin),
        }
    }
    fn n<E: Entry + 'static, F: Fin>(e: E, ws: &[EW], fin: F) -> F::Out {
        let Some((x, rest)) = ws.split_first() else { return fin.n(e) };
        match x {
            EW::Cont(0) => D::n(leak(e), rest, fin),
            EW::Cont(2) => D::n(Arc::new(e), rest, fin),
            x => same_world!(D, n, e, x, rest, fin),
        }
    }
    fn i<E: InflectableEntry + Clone + Send + Sync + 'static, F: Fin>(e: E, ws: &[EW], fin: F) -> F::Out {
        let Some((x, rest)) = ws.split_first() else { panic!("harness: an InflectableEntry chain must end in RootEntry") };
        match x {
            EW::Root => D::s(RootEntry::new(e), rest, fin),
            EW::ContI(0) => D::i(leak(e), rest, fin),
            EW::ContI(1) => D::i(Box::new(e), rest, fin),
            EW::ContI(2) => D::i(Arc::new(e), rest, fin),
            EW::ContI(_) => D::i(Cow::<'static, E>::Borrowed(leak(e)), rest, fin),
            EW::SomeI => D::i(Some(e), rest, fin),
            EW::WithDimsI(d) => D::i(wd(e, d), rest, fin),
            EW::ForceI(Flag::Emf(0)) => D::i(ForceFlag::<E, HighStorageResolutionCtor>::from(e), rest, fin),
            EW::ForceI(Flag::Emf(_)) => D::i(ForceFlag::<E, NoMetricCtor>::from(e), rest, fin),
            EW::ForceI(Flag::User(_)) => D::i(ForceFlag::<E, UserCtor<2>>::from(e), rest, fin),
            EW::ForceI(Flag::Opaque(_)) => D::i(ForceFlag::<E, TestFlagCtor>::from(e), rest, fin),
            other => panic!("harness: tree not buildable ({:?} below RootEntry)", other),
        }
    }
}

/// (base, wrappers from the innermost outwards)
fn flatten_e(t: &ETree) -> (&ETree, Vec<EW>) {
    let mut ws = vec![];
    let mut cur = t;
    loop {
        use ETree::*;
        match cur {
            Plain(..) | Empty | OptNone | OptNoneI | Merged(..) | MergedRef(..) => { ws.reverse(); return (cur, ws); }
            Boxed(e) => { ws.push(EW::Boxed); cur = e; }
            Cont(k, e) => { ws.push(EW::Cont(*k)); cur = e; }
            OptSome(e) => { ws.push(EW::Some); cur = e; }
            WithDims(e, d) => { ws.push(EW::WithDims(d.clone())); cur = e; }
            GDims(e, d, deny) => { ws.push(EW::GDims(d.clone(), deny.clone())); cur = e; }
            Force(e, f) => { ws.push(EW::Force(*f)); cur = e; }
            Root(e) => { ws.push(EW::Root); cur = e; }
            ContI(k, e) => { ws.push(EW::ContI(*k)); cur = e; }
            OptSomeI(e) => { ws.push(EW::SomeI); cur = e; }
            WithDimsI(e, d) => { ws.push(EW::WithDimsI(d.clone())); cur = e; }
            ForceI(e, f) => { ws.push(EW::ForceI(*f)); cur = e; }
        }
    }
}
fn starts_inflectable(ws: &[EW]) -> bool { matches!(ws.first(), Some(EW::Root | EW::ContI(_) | EW::SomeI | EW::WithDimsI(..) | EW::ForceI(_))) }

enum Child { Plain(SE<PV>), Boxed(BoxEntry) }
fn child(t: &ETree) -> Child {
    match t {
        ETree::Plain(s, g) if !is_rich(s) => Child::Plain(mk_plain(s, g)),
        ETree::Boxed(x) => Child::Boxed(build(x, ToBox)),
        other => panic!("harness: a Merged operand must be a plain script or a BoxEntry, got {:?}", other),
    }
}
/// Builds the real Rust value denoted by the tree and hands it to `fin`.
fn build<F: Fin>(t: &ETree, fin: F) -> F::Out {
    let (base, ws) = flatten_e(t);
    match base {
        ETree::Plain(s, g) if is_rich(s) => {
            let e = mk_rich(s, g);
            match ws.split_first() {
                None => fin.cs(e),
                Some((EW::Boxed, rest)) => DTop::s(BoxEntry::new(e), rest, fin),
                Some((x, _)) => panic!("harness: a script with wrapped values may only be boxed, got {:?}", x),
            }
        }
        ETree::Plain(s, g) => {
            let e = mk_plain(s, g);
            if starts_inflectable(&ws) { DTop::i(e, &ws, fin) } else { DTop::cs(e, &ws, fin) }
        }
        ETree::Empty => DOne::cs(EmptyEntry, &ws, fin),
        ETree::OptNone => DOne::cs(None::<SE<PV>>, &ws, fin),
        ETree::OptNoneI => DOne::i(None::<SE<PV>>, &ws, fin),
        ETree::Merged(a, b) => match (child(a), child(b)) {
            (Child::Plain(a), Child::Plain(b)) => DOne::cs(a.merge(b), &ws, fin),
            (Child::Plain(a), Child::Boxed(b)) => DOne::s(a.merge(b), &ws, fin),
            (Child::Boxed(a), Child::Plain(b)) => DOne::s(a.merge(b), &ws, fin),
            (Child::Boxed(a), Child::Boxed(b)) => DOne::s(a.merge(b), &ws, fin),
        },
        ETree::MergedRef(a, b) => match (child(a), child(b)) {
            (Child::Plain(a), Child::Plain(b)) => DOne::cs(leak(a).merge_by_ref(leak(b)), &ws, fin),
            (Child::Plain(a), Child::Boxed(b)) => DOne::n(leak(a).merge_by_ref(leak(b)), &ws, fin),
            (Child::Boxed(a), Child::Plain(b)) => DOne::n(leak(a).merge_by_ref(leak(b)), &ws, fin),
            (Child::Boxed(a), Child::Boxed(b)) => DOne::n(leak(a).merge_by_ref(leak(b)), &ws, fin),
        },
        _ => unreachable!(),
    }
}

/// Typing rules of `build`, used by the generators: Ok(world) or the reason the tree cannot be built.
#[derive(Clone, Copy, PartialEq, Debug)]
enum World { Rich, Both, CS, S, N, I }
fn typ(t: &ETree) -> Result<(World, usize), String> {
    use ETree::*;
    let wrap = |w: World, d: usize| if d + 1 > EDEPTH { Err("depth".to_string()) } else { Ok((w, d + 1)) };
    match t {
        Plain(s, _) => {
            if s.iter().any(|i| matches!(i, SItem::Val(_, v, _) if vdepth(v) > VDEPTH)) { return Err("value depth".into()); }
            Ok((if is_rich(s) { World::Rich } else { World::Both }, 0))
        }
        Empty | OptNone => Ok((World::CS, 1)),
        OptNoneI => Ok((World::I, 1)),
        Merged(a, b) | MergedRef(a, b) => {
            let mut plain = true;
            for c in [a, b] {
                match &**c {
                    Plain(s, _) if !is_rich(s) => {}
                    Boxed(_) => { typ(c)?; plain = false; }
                    _ => return Err("merged operand".into()),
                }
            }
            Ok((if plain { World::CS } else if matches!(t, Merged(..)) { World::S } else { World::N }, 1))
        }
        Boxed(e) => match typ(e)? { (World::N | World::I, _) => Err("boxed".into()), _ => Ok((World::S, 0)) },
        Cont(k, e) => match typ(e)? {
            (World::Rich | World::I, _) => Err("cont".into()),
            (World::Both | World::CS, d) => wrap(World::CS, d),
            (w, d) => if *k == 1 { wrap(w, d) } else if *k >= 3 { Err("cow".into()) } else { wrap(World::N, d) },
        },
        OptSome(e) | WithDims(e, _) | GDims(e, _, _) | Force(e, _) => match typ(e)? {
            (World::Rich | World::I, _) => Err("wrapper".into()),
            (World::Both, d) => wrap(World::CS, d),
            (w, d) => wrap(w, d),
        },
        Root(e) => match typ(e)? { (World::Both | World::I, d) => wrap(World::S, d), _ => Err("root".into()) },
        ContI(_, e) | OptSomeI(e) | WithDimsI(e, _) | ForceI(e, _) => match typ(e)? { (World::Both | World::I, d) => wrap(World::I, d), _ => Err("inflectable".into()) },
    }
}
fn buildable(t: &ETree) -> bool { matches!(typ(t), Ok((w, _)) if w != World::I) }

// ------------------------------------------------------------------------------------------- stream / format adapters
/// (index of the entry in the sequence, terminal, what it was handed)
type Seen = Rc<RefCell<Vec<(usize, u32, Rec)>>>;
thread_local! {
    /// (terminal, index of its call, kind 0 = Validation / 1 = Io): when a terminal fails
    static FAILS: RefCell<Vec<(u32, usize, u8)>> = RefCell::new(vec![]);
    static CUR_ENTRY: std::cell::Cell<usize> = std::cell::Cell::new(0);
    static RESULTS: RefCell<Vec<Option<(u32, u8)>>> = RefCell::new(vec![]);
}
/// terminals numbered 256 and up always fail (after recording) with their number; the others when FAILS says so
fn term_result(id: u32, call: usize) -> Result<(), IoStreamError> {
    if id >= 256 { return Err(IoStreamError::Validation(ValidationError::invalid(format!("t{id}")))); }
    match FAILS.with(|f| f.borrow().iter().find(|x| x.0 == id && x.1 == call).map(|x| x.2)) {
        None => Ok(()),
        Some(0) => Err(IoStreamError::Validation(ValidationError::invalid(format!("t{id}")))),
        Some(_) => Err(IoStreamError::Io(std::io::Error::new(std::io::ErrorKind::Other, format!("i{id}")))),
    }
}
/// terminal EntryIoStream
struct RecS { id: u32, seen: Seen, calls: usize }
impl EntryIoStream for RecS {
    fn next(&mut self, entry: &impl Entry) -> Result<(), IoStreamError> {
        let r = record(entry); self.seen.borrow_mut().push((CUR_ENTRY.with(|c| c.get()), self.id, r));
        self.calls += 1; term_result(self.id, self.calls - 1)
    }
    fn flush(&mut self) -> std::io::Result<()> { Ok(()) }
}
/// terminal Format
struct RecF { id: u32, seen: Seen, calls: usize }
impl Format for RecF {
    fn format(&mut self, entry: &impl Entry, _output: &mut impl std::io::Write) -> Result<(), IoStreamError> {
        let r = record(entry); self.seen.borrow_mut().push((CUR_ENTRY.with(|c| c.get()), self.id, r));
        self.calls += 1; term_result(self.id, self.calls - 1)
    }
}
/// the entries fed to an adapter chain: one of two concrete types
enum AnyE { Plain(SE<PV>), Boxed(BoxEntry) }
#[derive(Clone, Debug)]
enum SW { Globals(ETree), GDims(Dims, Vec<String>), Force(Flag), Tee(u32), OutputTo }
enum Globals { Plain(SE<PV>), Boxed(BoxEntry) }
fn globals(t: &ETree) -> Globals {
    match t {
        ETree::Plain(s, g) if !is_rich(s) => Globals::Plain(mk_plain(s, g)),
        ETree::Boxed(x) => Globals::Boxed(build(x, ToBox)),
        other => panic!("harness: globals must be a plain script or a BoxEntry, got {:?}", other),
    }
}
fn sv(d: &Dims) -> smallvec::SmallVec<[(Cow<'static, str>, Cow<'static, str>); 1]> {
    d.iter().map(|(k, v)| (Cow::Owned(k.clone()), Cow::Owned(v.clone()))).collect()
}
fn deny_set(deny: &[String]) -> Option<HashSet<Cow<'static, str>>> {
    if deny.is_empty() { None } else { Some(deny.iter().cloned().map(Cow::Owned).collect()) }
}
trait SDepth {
    fn st<S: EntryIoStream>(s: S, ws: &[SW], seen: &Seen, e: &[AnyE]);
    fn fm<S: Format>(s: S, ws: &[SW], seen: &Seen, e: &[AnyE]);
}
struct SZ;
struct SS<D>(PhantomData<D>);
type STop = SS<SS<SZ>>;
const SDEPTH: usize = 2;
/// feeds the whole sequence through this ONE adapter instance
fn feed<S: EntryIoStream>(mut s: S, es: &[AnyE]) {
    for (i, e) in es.iter().enumerate() {
        CUR_ENTRY.with(|c| c.set(i));
        let r = catch(|| { let r = match e { AnyE::Plain(e) => s.next(e), AnyE::Boxed(e) => s.next(e) }; let _ = s.flush(); r });
        let code = match r {
            Some(Ok(())) => None,
            Some(Err(err)) => {
                let t = err.to_string();
                let kind = if matches!(err, IoStreamError::Io(_)) { 1 } else { 0 };
                Some((t[1.min(t.len())..].parse::<u32>().unwrap_or(0xeeee), if t.starts_with(if kind == 1 { 'i' } else { 't' }) { kind } else { 9 }))
            }
            None => Some((0xffff, 9)),
        };
        RESULTS.with(|l| l.borrow_mut().push(code));
    }
}
impl SDepth for SZ {
    fn st<S: EntryIoStream>(s: S, ws: &[SW], _seen: &Seen, e: &[AnyE]) { assert!(ws.is_empty(), "harness: stream chain too deep"); feed(s, e) }
    fn fm<S: Format>(_s: S, _ws: &[SW], _seen: &Seen, _e: &[AnyE]) { panic!("harness: a format chain must end in output_to") }
}
impl<D: SDepth> SDepth for SS<D> {
    fn st<S: EntryIoStream>(s: S, ws: &[SW], seen: &Seen, e: &[AnyE]) {
        let Some((x, rest)) = ws.split_first() else { return feed(s, e) };
        match x {
            SW::Globals(g) => match globals(g) {
                Globals::Plain(g) => D::st(EntryIoStreamExt::merge_globals(s, g), rest, seen, e),
                Globals::Boxed(g) => D::st(EntryIoStreamExt::merge_globals(s, g), rest, seen, e),
            },
            SW::GDims(d, deny) => D::st(EntryIoStreamExt::merge_global_dimensions(s, sv(d), deny_set(deny)), rest, seen, e),
            SW::Force(Flag::Emf(0)) => D::st(ForceFlag::<S, HighStorageResolutionCtor>::from(s), rest, seen, e),
            SW::Force(Flag::Emf(_)) => D::st(ForceFlag::<S, NoMetricCtor>::from(s), rest, seen, e),
            SW::Force(Flag::User(_)) => D::st(ForceFlag::<S, UserCtor<2>>::from(s), rest, seen, e),
            SW::Force(Flag::Opaque(_)) => D::st(ForceFlag::<S, TestFlagCtor>::from(s), rest, seen, e),
            SW::Tee(id) => D::st(s.tee(RecS { id: *id, seen: seen.clone(), calls: 0 }), rest, seen, e),
            SW::OutputTo => panic!("harness: output_to applied to a stream"),
        }
    }
    fn fm<S: Format>(s: S, ws: &[SW], seen: &Seen, e: &[AnyE]) {
        let Some((x, rest)) = ws.split_first() else { panic!("harness: a format chain must end in output_to") };
        match x {
            SW::Globals(g) => match globals(g) {
                Globals::Plain(g) => D::fm(FormatExt::merge_globals(s, g), rest, seen, e),
                Globals::Boxed(g) => D::fm(FormatExt::merge_globals(s, g), rest, seen, e),
            },
            SW::GDims(d, deny) => D::fm(FormatExt::merge_global_dimensions(s, sv(d), deny_set(deny)), rest, seen, e),
            SW::OutputTo => D::st(s.output_to(Vec::<u8>::new()), rest, seen, e),
            other => panic!("harness: {:?} is not a Format adapter", other),
        }
    }
}
/// (terminal id, is the terminal a Format, adapters from the terminal outwards); the right operand of Tee is a terminal
fn flatten_s(s: &STree) -> (u32, bool, Vec<SW>) {
    let mut ws = vec![];
    let mut cur = s;
    let mut has_output = false;
    loop {
        match cur {
            STree::Term(id) => { ws.reverse(); return (*id, has_output, ws); }
            STree::MergeGlobals(s, g) => { ws.push(SW::Globals(g.clone())); cur = s; }
            STree::MergeGDims(s, d, deny) => { ws.push(SW::GDims(d.clone(), deny.clone())); cur = s; }
            STree::Force(s, f) => { ws.push(SW::Force(*f)); cur = s; }
            STree::Tee(a, b) => { let STree::Term(id) = **b else { panic!("harness: right operand of tee must be a terminal") }; ws.push(SW::Tee(id)); cur = a; }
            STree::OutputTo(s) => { ws.push(SW::OutputTo); has_output = true; cur = s; }
        }
    }
}
/// One adapter instance, the whole sequence of entries; returns the per-entry results and everything the terminals saw.
fn run_stream(s: &STree, entries: &[ETree], fails: &[(u32, usize, u8)]) -> (Vec<Option<(u32, u8)>>, Vec<(usize, u32, Rec)>) {
    let seen: Seen = Rc::new(RefCell::new(vec![]));
    let (id, is_format, ws) = flatten_s(s);
    let es: Vec<AnyE> = entries.iter().map(|e| match e {
        ETree::Plain(items, g) if !is_rich(items) => AnyE::Plain(mk_plain(items, g)),
        ETree::Boxed(x) => AnyE::Boxed(build(x, ToBox)),
        other => panic!("harness: a stream case needs plain scripts or BoxEntries, got {:?}", other),
    }).collect();
    FAILS.with(|f| *f.borrow_mut() = fails.to_vec());
    RESULTS.with(|r| r.borrow_mut().clear());
    if is_format { STop::fm(RecF { id, seen: seen.clone(), calls: 0 }, &ws, &seen, &es) } else { STop::st(RecS { id, seen: seen.clone(), calls: 0 }, &ws, &seen, &es) }
    FAILS.with(|f| f.borrow_mut().clear());
    drop(es);
    let v = seen.borrow().clone();
    (RESULTS.with(|r| std::mem::take(&mut *r.borrow_mut())), v)
}
fn enc_deliveries(seen: &[(usize, u32, Rec)], i: usize) -> Sx {
    Sx::L(seen.iter().filter(|x| x.0 == i).map(|(_, id, r)| Sx::L(vec![sx::n(*id), enc_rec(r)])).collect())
}

// ------------------------------------------------------------------------------------------- executing a case
fn count_wrappers(t: &ETree) -> usize {
    use ETree::*;
    match t {
        Plain(..) | Empty | OptNone | OptNoneI => 0,
        Merged(a, b) | MergedRef(a, b) => 1 + count_wrappers(a) + count_wrappers(b),
        Boxed(e) | Cont(_, e) | OptSome(e) | WithDims(e, _) | GDims(e, _, _) | Force(e, _) | Root(e) | ContI(_, e) | OptSomeI(e) | WithDimsI(e, _) | ForceI(e, _) => 1 + count_wrappers(e),
    }
}
pub fn exec(case: &Sx) -> (Sx, bool) {
    let r = catch(|| match case.tag() {
        0 => {
            let t = dec_etree(case.arg(0));
            let rec = build(&t, Top);
            let nt = count_wrappers(&t) >= 1 && !rec.items.is_empty();
            (enc_rec(&rec), nt)
        }
        1 => {
            let s = dec_stree(case.arg(0));
            let t = dec_etree(case.arg(1));
            let (res, seen) = run_stream(&s, &[t], &[]);
            let nt = seen.iter().any(|x| !x.2.items.is_empty());
            (Sx::L(vec![sx::opt(res.first().cloned().flatten().map(|r| sx::n(r.0))), enc_deliveries(&seen, 0)]), nt)
        }
        _ => {
            let s = dec_stree(case.arg(0));
            let ts: Vec<ETree> = case.arg(1).list().iter().map(dec_etree).collect();
            let fails: Vec<(u32, usize, u8)> = case.arg(2).list().iter().map(|f| (f.list()[0].num() as u32, f.list()[1].num() as usize, f.list()[2].num() as u8)).collect();
            let (res, seen) = run_stream(&s, &ts, &fails);
            let failed = res.iter().position(|r| r.is_some());
            // non-trivial: an entry with something to write comes AFTER a failed one
            let nt = failed.map(|k| seen.iter().any(|x| x.0 > k && !x.2.items.is_empty())).unwrap_or(false);
            (Sx::L((0..ts.len()).map(|i| Sx::L(vec![
                sx::opt(res.get(i).cloned().flatten().map(|r| Sx::L(vec![sx::n(r.0), sx::n(r.1)]))),
                enc_deliveries(&seen, i)])).collect()), nt)
        }
    });
    free_leaks();
    r.unwrap_or_else(|| (sx::tag(99, vec![sx::b("harness could not build this case")]), false))
}

// ------------------------------------------------------------------------------------------- generators
const NAMES: [&str; 12] = ["Latency", "count", "a", "", "ünï-cödé", "x y", "Operation", "StringProp", "名前", "A_very_long_metric_name_that_goes_on_and_on_0123456789", "Time", "b"];
const DKEYS: [&str; 6] = ["Operation", "az", "cell", "k", "", "ключ"];
const DVALS: [&str; 6] = ["Foo", "us-east-1a", "", "v", "值", "cell-1"];
const MSGS: [&str; 5] = ["bad", "nan", "toolong1", "x", "negative"];
const STRS: [&str; 6] = ["some string value", "", "\"quoted\"\\", "line\nbreak", "ünï", "true"];
const FBITS: [u64; 10] = [0, 0x8000_0000_0000_0000, 0x3ff0_0000_0000_0000, 0x4045_0000_0000_0000, 0x7ff0_0000_0000_0000, 0xfff0_0000_0000_0000,
    0x7ff8_0000_0000_0001, 0x7ff4_0000_dead_beef, 1, 0x7fef_ffff_ffff_ffff];

fn g_dims(rng: &mut Rng, max: u64) -> Dims {
    (0..rng.range(0, max)).map(|_| (rng.pick(&DKEYS).to_string(), rng.pick(&DVALS).to_string())).collect()
}
fn g_flag(rng: &mut Rng, family: u8) -> Option<Flag> {
    if rng.chance(55, 100) { return None; }
    if rng.chance(85, 100) {
        return Some(if family == 0 { Flag::Emf(rng.below(2) as u8) } else { Flag::User(rng.below(16) as u8) });
    }
    Some(match rng.below(4) { 0 => Flag::Emf(rng.below(2) as u8), 1 => Flag::User(rng.below(16) as u8), _ => Flag::Opaque(rng.below(2) as u8) })
}
fn g_force(rng: &mut Rng, family: u8) -> Flag {
    if rng.chance(85, 100) { if family == 0 { FORCE_MENU[rng.below(2) as usize] } else { FORCE_MENU[2] } } else { *rng.pick(&FORCE_MENU) }
}
fn g_obs(rng: &mut Rng) -> Obs {
    match rng.below(3) {
        0 => { let r = rng.next(); Obs::U(*rng.pick(&[0, 1, 1234, u64::MAX, 1 << 53, r])) }
        1 => Obs::F(if rng.chance(2, 3) { *rng.pick(&FBITS) } else { rng.next() }),
        _ => Obs::R(if rng.chance(2, 3) { *rng.pick(&FBITS) } else { rng.next() }, *rng.pick(&[0, 1, 7, u64::MAX])),
    }
}
fn g_vcall(rng: &mut Rng, family: u8, panics: bool) -> VCall {
    match rng.below(100) {
        0..=9 => VCall::None,
        10..=27 => VCall::Str(rng.pick(&STRS).to_string()),
        28..=37 => VCall::Err((0..rng.range(1, 3)).map(|_| rng.pick(&MSGS).to_string()).collect()),
        38..=39 if panics => VCall::Panic,
        _ => VCall::Metric { os: (0..*rng.pick(&[0u64, 1, 1, 1, 2, 3, 5])).map(|_| g_obs(rng)).collect(), unit: rng.below(UNITS.len() as u64) as u32, dims: g_dims(rng, 3), fl: g_flag(rng, family) },
    }
}
fn g_vwrap(rng: &mut Rng, family: u8, v: VTree) -> VTree {
    match rng.below(10) {
        0..=3 => VTree::Cont(rng.below(5) as u8, Box::new(v)),
        4 => VTree::OptSome(Box::new(v)),
        5..=7 => VTree::WithDims(Box::new(v), g_dims(rng, 3)),
        _ => VTree::Force(Box::new(v), g_force(rng, family)),
    }
}
fn g_vtree(rng: &mut Rng, family: u8, panics: bool, rich: bool) -> VTree {
    if !rich { return VTree::Plain(g_vcall(rng, family, panics)); }
    if rng.chance(1, 8) {
        return if rng.chance(1, 4) { VTree::ToStr(rng.pick(&STRS).to_string()) }
               else { VTree::Formatted((0..rng.range(0, VDEPTH as u64)).map(|_| rng.below(6) as u8).collect(), g_vcall(rng, family, panics)) };
    }
    let (mut v, mut d) = if rng.chance(1, 10) { (VTree::OptNone, 1) } else { (VTree::Plain(g_vcall(rng, family, panics)), 0) };
    let want = rng.range(0, VDEPTH as u64) as usize;
    while d < want { v = g_vwrap(rng, family, v); d += 1; }
    v
}
fn g_script(rng: &mut Rng, family: u8, panics: bool, rich: bool, maxlen: u64) -> Vec<SItem> {
    (0..rng.range(0, maxlen)).map(|_| match rng.below(100) {
        0..=11 => { let r = rng.below(u64::MAX / 2); SItem::Ts(*rng.pick(&[0u64, 1, 1_500_000_000, 1_700_000_000_123_456_789, r])) }
        12..=21 => SItem::Cfg(rng.below(5) as u32),
        _ => SItem::Val(rng.pick(&NAMES).to_string(), g_vtree(rng, family, panics, rich), rng.below(3) as u8),
    }).collect()
}
fn g_plain(rng: &mut Rng, family: u8, panics: bool, rich: bool) -> ETree { ETree::Plain(g_script(rng, family, panics, rich, 7), g_dims(rng, 2)) }
fn g_deny(rng: &mut Rng) -> Vec<String> { (0..rng.range(0, 3)).map(|_| rng.pick(&NAMES).to_string()).collect() }

fn g_wrap(rng: &mut Rng, family: u8, t: ETree) -> ETree {
    let b = Box::new(t);
    match rng.below(100) {
        0..=15 => ETree::Boxed(b),
        16..=30 => ETree::Cont(rng.below(5) as u8, b),
        31..=35 => ETree::OptSome(b),
        36..=47 => ETree::WithDims(b, g_dims(rng, 3)),
        48..=59 => ETree::GDims(b, g_dims(rng, 3), g_deny(rng)),
        60..=71 => ETree::Force(b, g_force(rng, family)),
        72..=79 => ETree::Root(b),
        80..=86 => ETree::ContI(rng.below(5) as u8, b),
        87..=89 => ETree::OptSomeI(b),
        90..=94 => ETree::WithDimsI(b, g_dims(rng, 3)),
        _ => ETree::ForceI(b, g_force(rng, family)),
    }
}
/// Boxed(random tree) — retried until the tree can be boxed (is Send)
fn g_boxed(rng: &mut Rng, family: u8, panics: bool, budget: usize) -> ETree {
    loop {
        let b = ETree::Boxed(Box::new(g_tree(rng, family, panics, budget)));
        if typ(&b).is_ok() { return b; }
    }
}
fn g_operand(rng: &mut Rng, family: u8, panics: bool, budget: usize) -> ETree {
    if budget == 0 || rng.chance(1, 2) { g_plain(rng, family, panics, false) } else { g_boxed(rng, family, panics, budget - 1) }
}
/// A random buildable tree with up to `budget` wrapper layers above its base.
fn g_tree(rng: &mut Rng, family: u8, panics: bool, budget: usize) -> ETree {
    let mut t = match rng.below(100) {
        0..=49 => g_plain(rng, family, panics, false),
        50..=64 => g_plain(rng, family, panics, true),
        65..=76 => ETree::Merged(Box::new(g_operand(rng, family, panics, budget)), Box::new(g_operand(rng, family, panics, budget))),
        77..=88 => ETree::MergedRef(Box::new(g_operand(rng, family, panics, budget)), Box::new(g_operand(rng, family, panics, budget))),
        89..=91 => ETree::Empty,
        92..=95 => ETree::OptNone,
        _ => ETree::OptNoneI,
    };
    let want = rng.range(0, budget as u64) as usize;
    let mut n = 0;
    let mut tries = 0;
    while n < want && tries < 40 {
        tries += 1;
        let cand = g_wrap(rng, family, t.clone());
        match typ(&cand) {
            // an InflectableEntry chain must leave room for its RootEntry
            Ok((World::I, d)) if d >= EDEPTH => {}
            Ok(_) => { t = cand; n += 1; }
            Err(_) => {
                let b = ETree::Boxed(Box::new(t.clone()));
                if typ(&b).is_ok() && rng.chance(1, 2) { t = b; n += 1; }
            }
        }
    }
    if let Ok((World::I, _)) = typ(&t) { t = ETree::Root(Box::new(t)); }
    assert!(buildable(&t), "generator produced an unbuildable tree: {:?}", t);
    t
}
fn g_stream(rng: &mut Rng, family: u8) -> STree {
    let mut s = STree::Term(if rng.chance(1, 6) { 256 } else { 0 });
    let n = rng.range(0, SDEPTH as u64) as usize;
    let mut format = rng.chance(1, 2) && n >= 1;
    let mut next_id = 1;
    for k in 0..n {
        let close = format && (k + 1 == n || rng.chance(1, 2));
        if close { s = STree::OutputTo(Box::new(s)); format = false; continue; }
        let b = Box::new(s);
        let globals = |rng: &mut Rng| if rng.chance(1, 2) { g_plain(rng, family, false, false) } else { g_boxed(rng, family, false, 2) };
        s = match rng.below(if format { 2 } else { 4 }) {
            0 => STree::MergeGlobals(b, globals(rng)),
            1 => STree::MergeGDims(b, g_dims(rng, 2), g_deny(rng)),
            2 => STree::Force(b, g_force(rng, family)),
            _ => { next_id += 1; STree::Tee(b, Box::new(STree::Term(next_id - 1 + if rng.chance(1, 3) { 256 } else { 0 }))) }
        };
    }
    s
}

// fixed representative material for the exhaustive sweeps
fn rep_metric(fl: Option<Flag>) -> VCall {
    VCall::Metric { os: vec![Obs::U(1234), Obs::R(0x4045_0000_0000_0000, 3)], unit: 4, dims: vec![("A".into(), "x".into())], fl }
}
fn rep_script() -> Vec<SItem> {
    let p = |c| VTree::Plain(c);
    vec![
        SItem::Ts(1_500_000_000), SItem::Cfg(7),
        SItem::Val("Time".into(), p(VCall::Metric { os: vec![Obs::F(0x4045_0000_0000_0000)], unit: 4, dims: vec![], fl: None }), 0),
        SItem::Val("StringProp".into(), p(VCall::Str("some string value".into())), 1),
        SItem::Val("WithDim".into(), p(rep_metric(Some(Flag::Emf(0)))), 2),
        SItem::Val("Err".into(), p(VCall::Err(vec!["bad".into(), "nan".into()])), 0),
        SItem::Val("Empty".into(), p(VCall::None), 0),
        SItem::Val("NoObs".into(), p(VCall::Metric { os: vec![], unit: 0, dims: vec![("k".into(), "v".into()), ("k".into(), "".into())], fl: None }), 0),
    ]
}
fn rep_plain() -> ETree { ETree::Plain(rep_script(), vec![("Operation".into(), "Foo".into())]) }
fn rep_other() -> ETree {
    ETree::Plain(vec![SItem::Val("az".into(), VTree::Plain(VCall::Str("us-east-1a".into())), 0), SItem::Val("Global".into(), VTree::Plain(rep_metric(None)), 0)], vec![("Result".into(), "Ok".into())])
}
fn rep_dims() -> Dims { vec![("az".into(), "us-east-1a".into()), ("cell".into(), "1".into())] }
fn entry_menu() -> Vec<Box<dyn Fn(ETree) -> ETree>> {
    let mut m: Vec<Box<dyn Fn(ETree) -> ETree>> = vec![];
    m.push(Box::new(|t| ETree::Boxed(Box::new(t))));
    for k in 0..5u8 { m.push(Box::new(move |t| ETree::Cont(k, Box::new(t)))); m.push(Box::new(move |t| ETree::ContI(k, Box::new(t)))); }
    m.push(Box::new(|t| ETree::OptSome(Box::new(t))));
    m.push(Box::new(|t| ETree::OptSomeI(Box::new(t))));
    m.push(Box::new(|t| ETree::WithDims(Box::new(t), rep_dims())));
    m.push(Box::new(|t| ETree::WithDimsI(Box::new(t), vec![("i".into(), "j".into())])));
    m.push(Box::new(|t| ETree::GDims(Box::new(t), vec![("g".into(), "h".into())], vec!["WithDim".into(), "az".into()])));
    for f in FORCE_MENU { m.push(Box::new(move |t| ETree::Force(Box::new(t), f))); m.push(Box::new(move |t| ETree::ForceI(Box::new(t), f))); }
    m.push(Box::new(|t| ETree::Root(Box::new(t))));
    m
}
fn value_menu() -> Vec<Box<dyn Fn(VTree) -> VTree>> {
    let mut m: Vec<Box<dyn Fn(VTree) -> VTree>> = vec![];
    for k in 0..5u8 { m.push(Box::new(move |v| VTree::Cont(k, Box::new(v)))); }
    m.push(Box::new(|v| VTree::OptSome(Box::new(v))));
    m.push(Box::new(|v| VTree::WithDims(Box::new(v), rep_dims())));
    for f in FORCE_MENU { m.push(Box::new(move |v| VTree::Force(Box::new(v), f))); }
    m
}
/// every sequence of up to `len` menu elements applied to `base`
fn sequences<T: Clone>(base: &T, menu: &[Box<dyn Fn(T) -> T>], len: usize, keep: &dyn Fn(&T) -> bool, out: &mut Vec<T>) {
    if len == 0 { return; }
    for f in menu {
        let t = f(base.clone());
        if !keep(&t) { continue; }
        out.push(t.clone());
        sequences(&t, menu, len - 1, keep, out);
    }
}

// ------------------------------------------------------------------------------------------- driver
fn tally_tree(out: &mut Out, t: &ETree) {
    use ETree::*;
    let k = match t {
        Plain(s, _) => { out.count(if is_rich(s) { "leaf_script_wrapped_values" } else { "leaf_script_plain_values" }); return; }
        Empty => "leaf_empty", OptNone | OptNoneI => "leaf_option_none",
        Merged(a, b) => { tally_tree(out, a); tally_tree(out, b); "w_merged" }
        MergedRef(a, b) => { tally_tree(out, a); tally_tree(out, b); "w_merged_ref" }
        Boxed(e) => { tally_tree(out, e); "w_boxed" }
        Cont(_, e) => { tally_tree(out, e); "w_ref_box_arc_cow" }
        OptSome(e) => { tally_tree(out, e); "w_option_some" }
        WithDims(e, _) => { tally_tree(out, e); "w_with_dimensions" }
        GDims(e, _, _) => { tally_tree(out, e); "w_with_global_dimensions" }
        Force(e, _) => { tally_tree(out, e); "w_force_flag" }
        Root(e) => { tally_tree(out, e); "w_root_entry" }
        ContI(_, e) | OptSomeI(e) | WithDimsI(e, _) | ForceI(e, _) => { tally_tree(out, e); "w_inflectable_twin" }
    };
    out.count(k);
}
fn emit(out: &mut Out, case: Sx) {
    let (imp, nt) = exec(&case);
    if imp.tag() == 99 { out.fail("harness could not build the case".into(), &case); }
    let s = imp.to_string();
    if s.contains("(2 \"") && s.contains("(4)") { out.count("traces_with_panic"); }
    out.case(&case, &imp, nt);
}
fn emit_entry(out: &mut Out, t: &ETree, kind: &str) {
    out.count(kind);
    out.count(&format!("wrappers_{}", count_wrappers(t).min(9)));
    tally_tree(out, t);
    emit(out, sx::tag(0, vec![enc_etree(t)]));
}
fn emit_stream(out: &mut Out, s: &STree, t: &ETree, kind: &str) {
    out.count(kind);
    emit(out, sx::tag(1, vec![enc_stree(s), enc_etree(t)]));
}

fn emit_seq(out: &mut Out, s: &STree, ts: &[ETree], fails: &[(u32, usize, u8)], kind: &str) {
    out.count(kind);
    out.count(&format!("sequence_len_{}", ts.len()));
    for f in fails { out.count(if f.2 == 0 { "sequence_terminal_fails_validation" } else { "sequence_terminal_fails_io" }); }
    if fails.is_empty() { out.count("sequence_without_failure"); }
    emit(out, sx::tag(2, vec![enc_stree(s), Sx::L(ts.iter().map(enc_etree).collect()),
        Sx::L(fails.iter().map(|f| Sx::L(vec![sx::n(f.0), sx::n(f.1 as u64), sx::n(f.2)])).collect())]));
}
fn stream_terminals(s: &STree, out: &mut Vec<u32>) {
    match s {
        STree::Term(id) => out.push(*id),
        STree::MergeGlobals(s, _) | STree::MergeGDims(s, _, _) | STree::Force(s, _) | STree::OutputTo(s) => stream_terminals(s, out),
        STree::Tee(a, b) => { stream_terminals(a, out); stream_terminals(b, out); }
    }
}

pub fn run(ctx: &Ctx) {
    if std::env::var("C15_LOUD").is_err() { crate::common::quiet_panics(); }
    let mut out = Out::new(ctx, "");
    if let Some(p) = &ctx.replay {
        for line in std::fs::read_to_string(p).unwrap().lines().filter(|l| l.starts_with('(')) { emit(&mut out, sx::parse(line)); }
        out.finish("replay");
        return;
    }
    let thorough = ctx.tier_thorough;
    {
        // observation outside the property (nothing is reported through it): what BoxEntry::inner() gives access to
        let b = BoxEntry::new(mk_plain(&rep_script(), &vec![]));
        let ok = b.inner().downcast_ref::<SE<PV>>().is_some();
        out.notes.push(format!("BoxEntry::inner() can be downcast to the boxed entry's type: {ok}"));
    }
    // (a) every buildable chain of entry wrappers (up to 3 layers; a BoxEntry at least every third) over representative bases
    let menu = entry_menu();
    let bases = [rep_plain(), ETree::Merged(Box::new(rep_other()), Box::new(ETree::Boxed(Box::new(rep_plain())))),
                 ETree::MergedRef(Box::new(rep_other()), Box::new(rep_plain())), ETree::OptNone, ETree::OptNoneI, ETree::Empty];
    for (bi, base) in bases.iter().enumerate() {
        let mut all = vec![base.clone()];
        let depth = if bi == 0 { if thorough { 4 } else { 3 } } else if bi <= 2 { 2 } else { 1 };
        sequences(base, &menu, depth, &|t| typ(t).is_ok(), &mut all);
        for t in all.iter().filter(|t| buildable(t)) { emit_entry(&mut out, t, "exhaustive_entry_chains"); }
    }
    // (b) every chain of value wrappers, in a script at top level and under BoxEntry; every flag pair
    let vmenu = value_menu();
    let mut flags: Vec<Option<Flag>> = vec![None, Some(Flag::Emf(0)), Some(Flag::Emf(1)), Some(Flag::Opaque(0)), Some(Flag::Opaque(1))];
    for k in 0..16 { flags.push(Some(Flag::User(k))); }
    for leaf in [VTree::Plain(rep_metric(Some(Flag::Emf(0)))), VTree::Plain(rep_metric(Some(Flag::User(5)))), VTree::Plain(VCall::Str("s".into())), VTree::OptNone] {
        let mut all = vec![leaf.clone()];
        sequences(&leaf, &vmenu, VDEPTH, &|v| vdepth(v) <= VDEPTH, &mut all);
        for v in all {
            let script = vec![SItem::Val("before".into(), VTree::Plain(rep_metric(None)), 0), SItem::Val("v".into(), v, 0), SItem::Val("after".into(), VTree::Plain(VCall::Str("x".into())), 0)];
            let t = ETree::Plain(script, vec![]);
            emit_entry(&mut out, &t, "exhaustive_value_chains");
            emit_entry(&mut out, &ETree::Boxed(Box::new(t)), "exhaustive_value_chains");
        }
    }
    {
        let mut lifts: Vec<Vec<u8>> = vec![vec![]];
        for a in 0..6u8 { lifts.push(vec![a]); for b in 0..6u8 { lifts.push(vec![a, b]); } }
        for ls in lifts {
            for c in [rep_metric(Some(Flag::Emf(1))), VCall::Str("formatted".into())] {
                let t = ETree::Plain(vec![SItem::Val("f".into(), VTree::Formatted(ls.clone(), c), 0), SItem::Val("s".into(), VTree::ToStr("to string".into()), 1)], vec![]);
                emit_entry(&mut out, &t, "exhaustive_formatter_liftings");
                emit_entry(&mut out, &ETree::Boxed(Box::new(ETree::WithDims(Box::new(ETree::Boxed(Box::new(t))), rep_dims()))), "exhaustive_formatter_liftings");
            }
        }
    }
    for f1 in &flags {
        for f2 in FORCE_MENU {
            let v = VTree::Force(Box::new(VTree::Plain(rep_metric(*f1))), f2);
            for f3 in FORCE_MENU {
                let vv = VTree::Force(Box::new(v.clone()), f3);
                emit_entry(&mut out, &ETree::Plain(vec![SItem::Val("m".into(), vv, 0)], vec![]), "exhaustive_flag_merges");
            }
            let plain = ETree::Plain(vec![SItem::Val("m".into(), VTree::Plain(rep_metric(*f1)), 0), SItem::Val("after".into(), VTree::Plain(rep_metric(None)), 0)], vec![]);
            emit_entry(&mut out, &ETree::Force(Box::new(plain.clone()), f2), "exhaustive_flag_merges");
            for f3 in FORCE_MENU {
                emit_entry(&mut out, &ETree::Force(Box::new(ETree::Force(Box::new(plain.clone()), f2)), f3), "exhaustive_flag_merges");
                emit_entry(&mut out, &ETree::Root(Box::new(ETree::ForceI(Box::new(plain.clone()), f3))), "exhaustive_flag_merges");
            }
        }
    }
    // (c) every chain of stream / format adapters up to 2 (thorough: 3)
    {
        let g1 = rep_other();
        let g2 = ETree::Boxed(Box::new(ETree::WithDims(Box::new(rep_other()), vec![("w".into(), "d".into())])));
        let mut smenu: Vec<Box<dyn Fn(STree) -> STree>> = vec![];
        for g in [g1, g2] { smenu.push(Box::new(move |s| STree::MergeGlobals(Box::new(s), g.clone()))); }
        smenu.push(Box::new(|s| STree::MergeGDims(Box::new(s), rep_dims(), vec!["WithDim".into()])));
        smenu.push(Box::new(|s| STree::MergeGDims(Box::new(s), vec![], vec!["WithDim".into()])));
        smenu.push(Box::new(|s| STree::MergeGDims(Box::new(s), rep_dims(), vec![])));
        smenu.push(Box::new(|s| STree::Force(Box::new(s), Flag::Emf(1))));
        smenu.push(Box::new(|s| STree::Force(Box::new(s), Flag::User(2))));
        smenu.push(Box::new(|s| STree::Tee(Box::new(s), Box::new(STree::Term(9)))));
        smenu.push(Box::new(|s| STree::Tee(Box::new(s), Box::new(STree::Term(300)))));
        smenu.push(Box::new(|s| STree::OutputTo(Box::new(s))));
        fn s_ok(s: &STree, above_output: bool, depth: usize) -> bool {
            // below an output_to only Format adapters (merge_globals, merge_global_dimensions); one output_to at most
            if depth > SDEPTH { return false; }
            match s {
                STree::Term(_) => true,
                STree::MergeGlobals(s, _) | STree::MergeGDims(s, _, _) => s_ok(s, above_output, depth + 1),
                STree::Force(s, _) | STree::Tee(s, _) => !has_output(s) || true && s_ok(s, above_output, depth + 1) && !below_needs_format(s),
                STree::OutputTo(s) => !has_output(s) && format_only(s) && s_ok(s, true, depth + 1),
            }
        }
        fn has_output(s: &STree) -> bool { match s { STree::Term(_) => false, STree::OutputTo(_) => true, STree::MergeGlobals(s, _) | STree::MergeGDims(s, _, _) | STree::Force(s, _) | STree::Tee(s, _) => has_output(s) } }
        fn format_only(s: &STree) -> bool { match s { STree::Term(_) => true, STree::MergeGlobals(s, _) | STree::MergeGDims(s, _, _) => format_only(s), _ => false } }
        fn below_needs_format(_s: &STree) -> bool { false }
        let mut all = vec![STree::Term(0), STree::Term(256)];
        sequences(&STree::Term(256), &smenu, SDEPTH, &|s| s_ok(s, false, 0), &mut all);
        sequences(&STree::Term(0), &smenu, SDEPTH, &|s| s_ok(s, false, 0), &mut all);
        let entries = [rep_plain(), ETree::Boxed(Box::new(ETree::Force(Box::new(rep_plain()), Flag::Emf(0))))];
        for s in &all { for e in &entries { emit_stream(&mut out, s, e, "exhaustive_stream_chains"); } }
        // the same chains as ONE instance fed a sequence of entries, a terminal failing at every position with both
        // error kinds: what the terminals are handed before and after the failure
        let e2 = ETree::Plain(vec![
            SItem::Val("WithDim".into(), VTree::Plain(rep_metric(None)), 0), SItem::Val("az".into(), VTree::Plain(VCall::Str("eu".into())), 1),
            SItem::Val("Other".into(), VTree::Plain(rep_metric(Some(Flag::Emf(1)))), 2)], vec![("Operation".into(), "Bar".into())]);
        let pool = [rep_plain(), e2, entries[1].clone(), rep_plain()];
        let lens: &[usize] = if thorough { &[2, 3, 4, 6] } else { &[2, 3] };
        for s in &all {
            let mut terms = vec![]; stream_terminals(s, &mut terms);
            terms.retain(|t| *t < 256);
            for &n in lens {
                let seq: Vec<ETree> = (0..n).map(|i| pool[(i + n) % pool.len()].clone()).collect();
                emit_seq(&mut out, s, &seq, &[], "exhaustive_adapter_sequences");
                for t in &terms {
                    for k in 0..n.min(if thorough { 6 } else { 3 }) {
                        if n > 2 && k == n - 1 && !thorough { continue; } // a failure on the last entry shows nothing new
                        for kind in 0..2u8 { emit_seq(&mut out, s, &seq, &[(*t, k, kind)], "exhaustive_adapter_sequences"); }
                    }
                }
            }
        }
    }
    // (d) random trees
    let mut rng = Rng::new(ctx.seed);
    let n = if thorough { 300000 } else { 6000 };
    for i in 0..n {
        let family = rng.below(2) as u8;
        let panics = i % 10 == 0;
        let budget = 1 + rng.below(6) as usize;
        let t = g_tree(&mut rng, family, panics, budget);
        emit_entry(&mut out, &t, "random_entry_trees");
    }
    for _ in 0..n / 4 {
        let family = rng.below(2) as u8;
        let s = g_stream(&mut rng, family);
        let e = if rng.chance(1, 2) { g_plain(&mut rng, family, false, false) } else { g_boxed(&mut rng, family, false, 3) };
        emit_stream(&mut out, &s, &e, "random_stream_chains");
        // ... and as one instance fed 2-6 random entries with random terminal failures
        let n = rng.range(2, 6) as usize;
        let seq: Vec<ETree> = (0..n).map(|_| if rng.chance(2, 3) { g_plain(&mut rng, family, false, false) } else { g_boxed(&mut rng, family, false, 2) }).collect();
        let mut terms = vec![]; stream_terminals(&s, &mut terms);
        let fails: Vec<(u32, usize, u8)> = (0..rng.range(0, 3)).map(|_| (*rng.pick(&terms), rng.below(n as u64) as usize, rng.below(2) as u8)).collect();
        emit_seq(&mut out, &s, &seq, &fails, "random_adapter_sequences");
    }
    out.finish("entry cases: a wrapped entry tree written into a recording EntryWriter/ValueWriter, its sample_group collected; stream cases: what every terminal stream/format was handed, for one entry and for sequences of 2-6 entries through ONE adapter instance with terminals failing (validation / io) at chosen positions. Exhaustive: every buildable chain of entry wrappers (static types, <= 2 between erasure points) up to the tier's length over representative bases, every chain of value wrappers, every (flag, forced flag, forced flag) triple, every chain of stream/format adapters; plus random trees. Non-trivial = at least one wrapper and at least one recorded item; distinct by hash of the case");
}
