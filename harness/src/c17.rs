//! C17 — global sink routing. Operation sequences over a pool of macro-declared globals, executed on
//! persistent OS threads and tokio runtime worker threads (thread-affine operations stay on their thread),
//! catch_unwind around every operation; recorder sinks tell which destination received which entry.
use crate::common::{Ctx, Out, Rng};
use crate::sx::{self, Sx};
use metrique_writer::sink::{global_entry_sink, AttachGlobalEntrySink, AttachGlobalEntrySinkExt, AttachHandle};
use metrique_writer_core::{EntryIoStream, IoStreamError};
use metrique_writer_core::global::{ThreadLocalTestSinkGuard, TokioRuntimeTestSinkGuard};
use metrique_writer_core::sink::FlushWait;
use metrique_writer_core::{BoxEntry, BoxEntrySink, Entry, EntrySink, EntryWriter, GlobalEntrySink, Observation, Unit, MetricFlags, ValidationError, Value, ValueWriter};
use std::cell::RefCell;
use std::collections::HashMap;
use std::sync::mpsc;
use std::sync::{Arc, Mutex, OnceLock};

// ------------------------------------------------------------------------------------------- recorders
#[derive(Clone, Copy, Debug, PartialEq)]
enum Ev { Recv(u64, u64), Joined(u64) }
type Log = Arc<Mutex<Vec<Ev>>>;

/// The entry: an id and a payload derived from it (checked when try_append hands it back).
struct Ent { id: u64, payload: String }
fn ent(id: u64) -> Ent { Ent { id, payload: format!("p{}", id.wrapping_mul(0x9e37_79b9)) } }
impl Entry for Ent {
    fn write<'a>(&'a self, w: &mut impl EntryWriter<'a>) { w.value("id", &self.id); w.value("payload", self.payload.as_str()); }
}
/// Reads the id back out of whatever the sink was given (a BoxEntry).
#[derive(Default)]
struct IdReader { id: Option<u64>, payload: Option<String> }
struct IdValue<'a>(&'a mut IdReader, bool);
impl<'a> EntryWriter<'a> for IdReader {
    fn timestamp(&mut self, _t: std::time::SystemTime) {}
    fn value(&mut self, name: impl Into<std::borrow::Cow<'a, str>>, value: &(impl Value + ?Sized)) {
        let is_id = name.into() == "id";
        value.write(IdValue(self, is_id));
    }
    fn config(&mut self, _c: &'a dyn metrique_writer_core::EntryConfig) {}
}
impl ValueWriter for IdValue<'_> {
    fn string(self, v: &str) { if !self.1 { self.0.payload = Some(v.to_string()); } }
    fn metric<'a>(self, d: impl IntoIterator<Item = Observation>, _u: Unit, _dims: impl IntoIterator<Item = (&'a str, &'a str)>, _f: MetricFlags<'_>) {
        if self.1 { if let Some(Observation::Unsigned(n)) = d.into_iter().next() { self.0.id = Some(n); } }
    }
    fn error(self, _e: ValidationError) {}
}
fn read_id(e: &impl Entry) -> u64 {
    let mut r = IdReader::default();
    e.write(&mut r);
    match (r.id, r.payload) { (Some(id), Some(p)) if p == ent(id).payload => id, (Some(id), _) => id | (1 << 62), _ => u64::MAX }
}
struct RecSink { id: u64, log: Log }
impl EntrySink<BoxEntry> for RecSink {
    fn append(&self, entry: BoxEntry) { let eid = read_id(&entry); self.log.lock().unwrap().push(Ev::Recv(self.id, eid)); }
    fn flush_async(&self) -> FlushWait { FlushWait::ready() }
}
/// The "join handle" given to attach(): its drop marks the moment the attached sink is shut down.
struct JoinProbe { id: u64, log: Log }
impl Drop for JoinProbe { fn drop(&mut self) { self.log.lock().unwrap().push(Ev::Joined(self.id)); } }

// ------------------------------------------------------------------------------------------- the pool of globals
struct GV {
    attach: fn(RecSink, JoinProbe) -> AttachHandle,
    try_append: fn(Ent) -> Result<(), Ent>,
    append: fn(Ent),
    sink: fn() -> BoxEntrySink,
    try_sink: fn() -> Option<BoxEntrySink>,
    is_attached: fn() -> bool,
    set_tl: fn(BoxEntrySink) -> ThreadLocalTestSinkGuard,
    set_rt: fn(&tokio::runtime::Handle, BoxEntrySink) -> TokioRuntimeTestSinkGuard,
    set_rt_cur: fn(BoxEntrySink) -> TokioRuntimeTestSinkGuard,
    with_tl: fn(BoxEntrySink, Ent),
}
macro_rules! gv {
    ($t:ty) => {
        GV {
            attach: |s, j| <$t as AttachGlobalEntrySink>::attach((s, j)),
            try_append: |e| <$t as AttachGlobalEntrySink>::try_append(e),
            append: |e| <$t as GlobalEntrySink>::append(e),
            sink: || <$t as GlobalEntrySink>::sink(),
            try_sink: || <$t as AttachGlobalEntrySink>::try_sink(),
            is_attached: || <$t as AttachGlobalEntrySink>::is_attached(),
            set_tl: |s| <$t>::set_test_sink(s),
            set_rt: |h, s| <$t>::set_test_sink_for_tokio_runtime(h, s),
            set_rt_cur: |s| <$t>::set_test_sink_on_current_tokio_runtime(s),
            with_tl: |s, e| <$t>::with_test_sink(s, move || <$t as GlobalEntrySink>::append(e)),
        }
    };
}
macro_rules! pool {
    ($($n:ident)*) => {
        $( global_entry_sink! { $n } )*
        static POOL: &[GV] = &[ $( gv!($n) ),* ];
    };
}
// reusable globals (every case leaves them clean); index 0 is the one the metrique-service-metrics crate declares
global_entry_sink! { Reuse1 }
global_entry_sink! { Reuse2 }
static REUSE: &[GV] = &[gv!(metrique_service_metrics::ServiceMetrics), gv!(Reuse1), gv!(Reuse2)];
// single-use globals for histories that forget an attach handle (the global stays attached for the process' life)
pool! {
    F00 F01 F02 F03 F04 F05 F06 F07 F08 F09 F0a F0b F0c F0d F0e F0f F10 F11 F12 F13 F14 F15 F16 F17 F18 F19 F1a F1b F1c F1d F1e F1f
    F20 F21 F22 F23 F24 F25 F26 F27 F28 F29 F2a F2b F2c F2d F2e F2f F30 F31 F32 F33 F34 F35 F36 F37 F38 F39 F3a F3b F3c F3d F3e F3f
    F40 F41 F42 F43 F44 F45 F46 F47 F48 F49 F4a F4b F4c F4d F4e F4f F50 F51 F52 F53 F54 F55 F56 F57 F58 F59 F5a F5b F5c F5d F5e F5f
    F60 F61 F62 F63 F64 F65 F66 F67 F68 F69 F6a F6b F6c F6d F6e F6f F70 F71 F72 F73 F74 F75 F76 F77 F78 F79 F7a F7b F7c F7d F7e F7f
}

// ------------------------------------------------------------------------------------------- threads and runtimes
const NTHREADS: usize = 3;
const NRUNTIMES: usize = 2;
type Job = Box<dyn FnOnce() + Send>;
struct World { workers: Vec<mpsc::Sender<Job>>, runtimes: Vec<tokio::runtime::Runtime> }
static WORLD: OnceLock<World> = OnceLock::new();
fn world() -> &'static World {
    WORLD.get_or_init(|| {
        let workers = (0..NTHREADS).map(|i| {
            let (tx, rx) = mpsc::channel::<Job>();
            std::thread::Builder::new().name(format!("c17-t{i}")).spawn(move || { for job in rx { job(); } }).unwrap();
            tx
        }).collect();
        let runtimes = (0..NRUNTIMES).map(|i| tokio::runtime::Builder::new_multi_thread().worker_threads(1).thread_name(format!("c17-rt{i}")).build().unwrap()).collect();
        World { workers, runtimes }
    })
}
thread_local! { static TL_GUARDS: RefCell<HashMap<usize, ThreadLocalTestSinkGuard>> = RefCell::new(HashMap::new()); }

/// Runs `f` on thread `t` (0..NTHREADS: OS worker, entering runtime `rt` first if given; NTHREADS+i: the worker
/// thread of runtime i) under catch_unwind; None = it panicked.
fn on<T: Send + 'static>(t: usize, rt: Option<usize>, f: impl FnOnce() -> T + Send + 'static) -> Option<T> {
    let w = world();
    let (tx, rx) = mpsc::channel();
    if t < NTHREADS {
        let job: Job = Box::new(move || {
            let r = std::panic::catch_unwind(std::panic::AssertUnwindSafe(|| {
                let _enter = rt.map(|r| world().runtimes[r].handle().enter());
                f()
            }));
            let _ = tx.send(r.ok());
        });
        w.workers[t].send(job).unwrap();
    } else {
        w.runtimes[t - NTHREADS].spawn(async move {
            let r = std::panic::catch_unwind(std::panic::AssertUnwindSafe(f));
            let _ = tx.send(r.ok());
        });
    }
    rx.recv().unwrap()
}

// ------------------------------------------------------------------------------------------- operations
#[derive(Clone, Copy, Debug, PartialEq)]
struct Cx { t: usize, rt: Option<usize> }
#[derive(Clone, Debug, PartialEq)]
enum Op {
    Attach(usize, Cx, u64), DropHandle(Cx, usize), ForgetHandle(Cx, usize), SetTL(usize, Cx, u64), DropTL(usize),
    SetRT(usize, Cx, usize, u64), SetRTCur(usize, Cx, u64), DropRT(Cx, usize), Append(usize, Cx, u64), TryAppend(usize, Cx, u64),
    Sink(usize, Cx), TrySink(usize, Cx), AppendVia(Cx, usize, u64), IsAttached(usize, Cx), WithTL(usize, Cx, u64, u64),
}
fn enc_cx(c: &Cx) -> Sx { Sx::L(vec![sx::n(c.t as u64), sx::n(c.rt.map(|r| r as u64 + 1).unwrap_or(0))]) }
fn dec_cx(x: &Sx) -> Cx { let r = x.list()[1].num() as usize; Cx { t: x.list()[0].num() as usize, rt: if r == 0 { None } else { Some(r - 1) } } }
fn enc_op(o: &Op) -> Sx {
    let u = |v: usize| sx::n(v as u64);
    match o {
        Op::Attach(g, c, s) => sx::tag(0, vec![u(*g), enc_cx(c), sx::n(*s)]),
        Op::DropHandle(c, h) => sx::tag(1, vec![enc_cx(c), u(*h)]),
        Op::ForgetHandle(c, h) => sx::tag(2, vec![enc_cx(c), u(*h)]),
        Op::SetTL(g, c, s) => sx::tag(3, vec![u(*g), enc_cx(c), sx::n(*s)]),
        Op::DropTL(k) => sx::tag(4, vec![u(*k)]),
        Op::SetRT(g, c, r, s) => sx::tag(5, vec![u(*g), enc_cx(c), u(*r), sx::n(*s)]),
        Op::SetRTCur(g, c, s) => sx::tag(6, vec![u(*g), enc_cx(c), sx::n(*s)]),
        Op::DropRT(c, k) => sx::tag(7, vec![enc_cx(c), u(*k)]),
        Op::Append(g, c, e) => sx::tag(8, vec![u(*g), enc_cx(c), sx::n(*e)]),
        Op::TryAppend(g, c, e) => sx::tag(9, vec![u(*g), enc_cx(c), sx::n(*e)]),
        Op::Sink(g, c) => sx::tag(10, vec![u(*g), enc_cx(c)]),
        Op::TrySink(g, c) => sx::tag(11, vec![u(*g), enc_cx(c)]),
        Op::AppendVia(c, k, e) => sx::tag(12, vec![enc_cx(c), u(*k), sx::n(*e)]),
        Op::IsAttached(g, c) => sx::tag(13, vec![u(*g), enc_cx(c)]),
        Op::WithTL(g, c, s, e) => sx::tag(14, vec![u(*g), enc_cx(c), sx::n(*s), sx::n(*e)]),
    }
}
fn dec_op(x: &Sx) -> Op {
    let u = |i: usize| x.arg(i).num() as usize;
    let n = |i: usize| x.arg(i).num() as u64;
    match x.tag() {
        0 => Op::Attach(u(0), dec_cx(x.arg(1)), n(2)),
        1 => Op::DropHandle(dec_cx(x.arg(0)), u(1)),
        2 => Op::ForgetHandle(dec_cx(x.arg(0)), u(1)),
        3 => Op::SetTL(u(0), dec_cx(x.arg(1)), n(2)),
        4 => Op::DropTL(u(0)),
        5 => Op::SetRT(u(0), dec_cx(x.arg(1)), u(2), n(3)),
        6 => Op::SetRTCur(u(0), dec_cx(x.arg(1)), n(2)),
        7 => Op::DropRT(dec_cx(x.arg(0)), u(1)),
        8 => Op::Append(u(0), dec_cx(x.arg(1)), n(2)),
        9 => Op::TryAppend(u(0), dec_cx(x.arg(1)), n(2)),
        10 => Op::Sink(u(0), dec_cx(x.arg(1))),
        11 => Op::TrySink(u(0), dec_cx(x.arg(1))),
        12 => Op::AppendVia(dec_cx(x.arg(0)), u(1), n(2)),
        13 => Op::IsAttached(u(0), dec_cx(x.arg(1))),
        _ => Op::WithTL(u(0), dec_cx(x.arg(1)), n(2), n(3)),
    }
}
fn ok(v: u64) -> Sx { sx::tag(0, vec![sx::n(v)]) }
fn panicked() -> Sx { sx::tag(1, vec![]) }
fn noop() -> Sx { sx::tag(3, vec![]) }

static NEXT_FRESH: std::sync::atomic::AtomicUsize = std::sync::atomic::AtomicUsize::new(0);

/// Executes one history on the real globals. Global indices of the case are mapped to pool globals: a global
/// whose attach handle the history forgets gets a never-used one.
fn exec_ops(ops: &[Op], unwinding: bool) -> Result<Sx, String> {
    let log: Log = Arc::new(Mutex::new(vec![]));
    // which case-level globals get burnt
    let mut handle_global: Vec<usize> = vec![];
    let mut burnt: Vec<usize> = vec![];
    {
        // static pre-pass: a handle index refers to the k-th *successful* attach, which needs the model; be conservative:
        // every global on which some ForgetHandle could act (any forget in a history that attaches on it) is mapped to a fresh one
        let any_forget = ops.iter().any(|o| matches!(o, Op::ForgetHandle(..)));
        for o in ops { if let Op::Attach(g, _, _) = o { if any_forget && !burnt.contains(g) { burnt.push(*g); } handle_global.push(*g); } }
    }
    let mut map: HashMap<usize, &'static GV> = HashMap::new();
    let mut next_reuse = 0;
    let global = |g: usize, map: &mut HashMap<usize, &'static GV>, next_reuse: &mut usize| -> Result<&'static GV, String> {
        if let Some(v) = map.get(&g) { return Ok(*v); }
        let v = if burnt.contains(&g) {
            let i = NEXT_FRESH.fetch_add(1, std::sync::atomic::Ordering::SeqCst);
            POOL.get(i).ok_or_else(|| "pool of single-use globals exhausted".to_string())?
        } else {
            let v = REUSE.get(*next_reuse).ok_or_else(|| "too many globals in one case".to_string())?;
            *next_reuse += 1;
            v
        };
        map.insert(g, v);
        Ok(v)
    };
    let mut handles: Vec<Option<AttachHandle>> = vec![];
    let mut tl_guards: Vec<Option<usize>> = vec![]; // thread the live guard sits on
    let mut rt_guards: Vec<Option<TokioRuntimeTestSinkGuard>> = vec![];
    let mut held: Vec<BoxEntrySink> = vec![];
    let mut results = vec![];
    let last_recv = |log: &Log, before: usize, e: u64| -> u64 {
        let l = log.lock().unwrap();
        match (l.len() - before, l.last()) { (1, Some(Ev::Recv(d, x))) if *x == e => *d, (0, _) => 0xfff0, _ => 0xfff1 }
    };
    let test_sink = |s: u64, log: &Log| BoxEntrySink::new(RecSink { id: s, log: log.clone() });
    for o in ops {
        let before = log.lock().unwrap().len();
        let r = match o.clone() {
            Op::Attach(g, c, s) => {
                let gv = global(g, &mut map, &mut next_reuse)?;
                let (sink, probe) = (RecSink { id: s, log: log.clone() }, JoinProbe { id: s, log: log.clone() });
                match on(c.t, c.rt, move || (gv.attach)(sink, probe)) { Some(h) => { handles.push(Some(h)); ok(handles.len() as u64 - 1) } None => panicked() }
            }
            Op::DropHandle(c, h) => match handles.get_mut(h).and_then(|x| x.take()) {
                Some(hd) => { on(c.t, c.rt, move || crate::common::drop_placed(hd, unwinding)).map(|_| ok(0)).unwrap_or_else(panicked) }
                None => noop(),
            },
            Op::ForgetHandle(c, h) => match handles.get_mut(h).and_then(|x| x.take()) {
                Some(hd) => { on(c.t, c.rt, move || hd.forget()).map(|_| ok(0)).unwrap_or_else(panicked) }
                None => noop(),
            },
            Op::SetTL(g, c, s) => {
                let gv = global(g, &mut map, &mut next_reuse)?;
                let sink = test_sink(s, &log);
                let idx = tl_guards.len();
                match on(c.t, c.rt, move || { let gd = (gv.set_tl)(sink); TL_GUARDS.with(|m| m.borrow_mut().insert(idx, gd)); }) {
                    Some(()) => { tl_guards.push(Some(c.t)); ok(idx as u64) }
                    None => panicked(),
                }
            }
            Op::DropTL(k) => match tl_guards.get_mut(k).and_then(|x| x.take()) {
                Some(t) => on(t, None, move || { let gd = TL_GUARDS.with(|m| m.borrow_mut().remove(&k)); crate::common::drop_placed(gd, unwinding); }).map(|_| ok(0)).unwrap_or_else(panicked),
                None => noop(),
            },
            Op::SetRT(g, c, r, s) => {
                let gv = global(g, &mut map, &mut next_reuse)?;
                let sink = test_sink(s, &log);
                if r >= NRUNTIMES { return Err("runtime index".into()); }
                match on(c.t, c.rt, move || (gv.set_rt)(world().runtimes[r].handle(), sink)) { Some(gd) => { rt_guards.push(Some(gd)); ok(rt_guards.len() as u64 - 1) } None => panicked() }
            }
            Op::SetRTCur(g, c, s) => {
                let gv = global(g, &mut map, &mut next_reuse)?;
                let sink = test_sink(s, &log);
                match on(c.t, c.rt, move || (gv.set_rt_cur)(sink)) { Some(gd) => { rt_guards.push(Some(gd)); ok(rt_guards.len() as u64 - 1) } None => panicked() }
            }
            Op::DropRT(c, k) => match rt_guards.get_mut(k).and_then(|x| x.take()) {
                Some(gd) => on(c.t, c.rt, move || crate::common::drop_placed(gd, unwinding)).map(|_| ok(0)).unwrap_or_else(panicked),
                None => noop(),
            },
            Op::Append(g, c, e) => {
                let gv = global(g, &mut map, &mut next_reuse)?;
                match on(c.t, c.rt, move || (gv.append)(ent(e))) { Some(()) => ok(last_recv(&log, before, e)), None => panicked() }
            }
            Op::TryAppend(g, c, e) => {
                let gv = global(g, &mut map, &mut next_reuse)?;
                match on(c.t, c.rt, move || (gv.try_append)(ent(e))) {
                    Some(Ok(())) => ok(last_recv(&log, before, e)),
                    Some(Err(back)) => sx::tag(2, vec![sx::n(read_id(&back))]),
                    None => panicked(),
                }
            }
            Op::Sink(g, c) => {
                let gv = global(g, &mut map, &mut next_reuse)?;
                match on(c.t, c.rt, move || (gv.sink)()) { Some(s) => { held.push(s); ok(held.len() as u64 - 1) } None => panicked() }
            }
            Op::TrySink(g, c) => {
                let gv = global(g, &mut map, &mut next_reuse)?;
                match on(c.t, c.rt, move || (gv.try_sink)()) { Some(Some(s)) => { held.push(s); ok(held.len() as u64 - 1) } Some(None) => sx::tag(2, vec![sx::n(0u64)]), None => panicked() }
            }
            Op::AppendVia(c, k, e) => match held.get(k).cloned() {
                Some(s) => match on(c.t, c.rt, move || s.append(ent(e))) { Some(()) => ok(last_recv(&log, before, e)), None => panicked() },
                None => noop(),
            },
            Op::IsAttached(g, c) => {
                let gv = global(g, &mut map, &mut next_reuse)?;
                match on(c.t, c.rt, move || (gv.is_attached)()) { Some(b) => ok(b as u64), None => panicked() }
            }
            Op::WithTL(g, c, s, e) => {
                let gv = global(g, &mut map, &mut next_reuse)?;
                let sink = test_sink(s, &log);
                match on(c.t, c.rt, move || (gv.with_tl)(sink, ent(e))) { Some(()) => ok(last_recv(&log, before, e)), None => panicked() }
            }
        };
        results.push(r);
    }
    let seen: Vec<Ev> = log.lock().unwrap().clone();
    // leave the reusable globals clean
    for (k, t) in tl_guards.iter().enumerate() { if let Some(t) = t { on(*t, None, move || { let gd = TL_GUARDS.with(|m| m.borrow_mut().remove(&k)); drop(gd); }); } }
    let mut cleanup_panicked = false;
    for gd in rt_guards.into_iter().flatten() { cleanup_panicked |= on(0, None, move || drop(gd)).is_none(); }
    for h in handles.into_iter().flatten() { cleanup_panicked |= on(0, None, move || drop(h)).is_none(); }
    drop(held);
    if cleanup_panicked { return Err("dropping a guard or attach handle panicked during cleanup (a lock was poisoned?)".into()); }
    for (g, gv) in &map {
        if burnt.contains(g) { continue; }
        for t in 0..NTHREADS + NRUNTIMES {
            let gv: &'static GV = gv;
            if on(t, None, move || (gv.is_attached)()) != Some(false) { return Err(format!("reusable global {g} is not clean after the case (thread {t})")); }
        }
    }
    Ok(Sx::L(vec![Sx::L(results), Sx::L(seen.iter().map(|e| match e { Ev::Recv(s, x) => sx::tag(0, vec![sx::n(*s), sx::n(*x)]), Ev::Joined(s) => sx::tag(1, vec![sx::n(*s)]) }).collect())]))
}

pub fn exec(case: &Sx) -> (Sx, bool, Option<String>) {
    let ops: Vec<Op> = case.list().first().map(|l| l.list().iter().map(dec_op).collect()).unwrap_or_default();
    for o in &ops {
        let c = match o { Op::Attach(_, c, _) | Op::DropHandle(c, _) | Op::ForgetHandle(c, _) | Op::SetTL(_, c, _) | Op::SetRT(_, c, _, _) | Op::SetRTCur(_, c, _)
            | Op::DropRT(c, _) | Op::Append(_, c, _) | Op::TryAppend(_, c, _) | Op::Sink(_, c) | Op::TrySink(_, c) | Op::AppendVia(c, _, _) | Op::IsAttached(_, c) | Op::WithTL(_, c, _, _) => *c,
            Op::DropTL(_) => Cx { t: 0, rt: None } };
        if c.t >= NTHREADS + NRUNTIMES || c.rt.map(|r| r >= NRUNTIMES).unwrap_or(false) || (c.t >= NTHREADS && c.rt != Some(c.t - NTHREADS)) {
            return (sx::tag(99, vec![]), false, Some("malformed context".into()));
        }
    }
    let nontrivial = ops.iter().filter(|o| matches!(o, Op::Attach(..) | Op::SetTL(..) | Op::SetRT(..) | Op::SetRTCur(..))).count() >= 1
        && ops.iter().any(|o| matches!(o, Op::Append(..) | Op::TryAppend(..)));
    // second element (not read by the model): every handle / guard drop of the history happens on an unwinding frame
    let unwinding = case.list().get(1).map(|x| x.num() != 0).unwrap_or(false);
    match exec_ops(&ops, unwinding) { Ok(x) => (x, nontrivial, None), Err(e) => (sx::tag(99, vec![]), false, Some(e)) }
}

// ------------------------------------------------------------------------------------------- generators
struct Sim { att: [bool; 3], handles: Vec<(usize, bool)>, tlg: Vec<bool>, rtg: Vec<bool>, held: usize, next_sink: u64, next_entry: u64 }
fn g_cx(rng: &mut Rng) -> Cx {
    let t = rng.below((NTHREADS + NRUNTIMES) as u64) as usize;
    if t >= NTHREADS { Cx { t, rt: Some(t - NTHREADS) } } else { Cx { t, rt: match rng.below(3) { 0 => None, k => Some(k as usize - 1) } } }
}
fn pick_idx(rng: &mut Rng, n: usize) -> usize { if n == 0 || rng.chance(1, 12) { rng.below(n as u64 + 2) as usize } else { rng.below(n as u64) as usize } }
fn g_ops(rng: &mut Rng, len: usize, nglobals: usize, forget: bool) -> Vec<Op> {
    let mut s = Sim { att: [false; 3], handles: vec![], tlg: vec![], rtg: vec![], held: 0, next_sink: 1, next_entry: 0x100 };
    let mut ops = vec![];
    // a case concentrates on few contexts so that overrides and appends meet
    let cxs: Vec<Cx> = (0..rng.range(1, 4)).map(|_| g_cx(rng)).collect();
    for _ in 0..len {
        let g = rng.below(nglobals as u64) as usize;
        let c = if rng.chance(4, 5) { *rng.pick(&cxs) } else { g_cx(rng) };
        let sink = s.next_sink;
        let e = s.next_entry;
        let o = match rng.below(100) {
            0..=10 => { s.next_sink += 1; if !s.att[g] { s.att[g] = true; s.handles.push((g, true)); } Op::Attach(g, c, sink) }
            11..=17 => { let h = pick_idx(rng, s.handles.len()); if let Some(x) = s.handles.get_mut(h) { if x.1 { x.1 = false; s.att[x.0] = false; } } Op::DropHandle(c, h) }
            18..=26 if forget => { let h = pick_idx(rng, s.handles.len()); if let Some(x) = s.handles.get_mut(h) { x.1 = false; } Op::ForgetHandle(c, h) }
            18..=29 => { s.next_sink += 1; s.tlg.push(true); Op::SetTL(g, c, sink) }
            30..=36 => Op::DropTL(pick_idx(rng, s.tlg.len())),
            37..=43 => { s.next_sink += 1; s.rtg.push(true); Op::SetRT(g, c, rng.below(NRUNTIMES as u64) as usize, sink) }
            44..=48 => { s.next_sink += 1; s.rtg.push(true); Op::SetRTCur(g, c, sink) }
            49..=54 => Op::DropRT(c, pick_idx(rng, s.rtg.len())),
            55..=66 => { s.next_entry += 1; Op::Append(g, c, e) }
            67..=80 => { s.next_entry += 1; Op::TryAppend(g, c, e) }
            81..=84 => { s.held += 1; Op::Sink(g, c) }
            85..=87 => { s.held += 1; Op::TrySink(g, c) }
            88..=91 => { s.next_entry += 1; Op::AppendVia(c, pick_idx(rng, s.held), e) }
            92..=95 => Op::IsAttached(g, c),
            _ => { s.next_sink += 1; s.next_entry += 1; Op::WithTL(g, c, sink, e) }
        };
        ops.push(o);
    }
    ops
}
fn op_name(o: &Op) -> &'static str {
    match o {
        Op::Attach(..) => "op_attach", Op::DropHandle(..) => "op_drop_handle", Op::ForgetHandle(..) => "op_forget_handle", Op::SetTL(..) => "op_set_test_sink",
        Op::DropTL(..) => "op_drop_test_sink_guard", Op::SetRT(..) => "op_set_runtime_sink", Op::SetRTCur(..) => "op_set_runtime_sink_current", Op::DropRT(..) => "op_drop_runtime_guard",
        Op::Append(..) => "op_append", Op::TryAppend(..) => "op_try_append", Op::Sink(..) => "op_sink", Op::TrySink(..) => "op_try_sink", Op::AppendVia(..) => "op_append_via_held_sink",
        Op::IsAttached(..) => "op_is_attached", Op::WithTL(..) => "op_with_test_sink",
    }
}
fn emit(out: &mut Out, ops: &[Op], kind: &str) {
    emit_placed(out, ops, kind, false);
}
fn emit_placed(out: &mut Out, ops: &[Op], kind: &str, unwinding: bool) {
    let mut cv = vec![Sx::L(ops.iter().map(enc_op).collect())];
    if unwinding { cv.push(sx::boolean(true)); }
    let case = Sx::L(cv);
    let (imp, nt, err) = exec(&case);
    if let Some(e) = err { out.fail(format!("harness could not run the case: {e}"), &case); }
    out.count(kind);
    for o in ops { out.count(op_name(o)); }
    let s = imp.to_string();
    out.add("result_panic", s.matches("(1)").count() as u64);
    out.add("result_entry_handed_back", s.matches("(2 ").count() as u64);
    out.case(&case, &imp, nt);
}


// ------------------------------------------------------------------------------------------- appends racing a detach (real threads)
global_entry_sink! { RaceG }
/// One run: `threads` appender threads each try_append `per` entries while another thread drops the attach handle.
/// Appender 0 optionally has a thread-local test sink (its entries must all go there, untouched by the detach).
/// Returns (outcomes per entry in program order per thread: (thread, entry, ok), the recorders' log).
/// The stream behind a real BackgroundQueue (attach_to_stream): written by the queue's own thread.
struct RecStream { id: u64, log: Log }
impl EntryIoStream for RecStream {
    fn next(&mut self, entry: &impl Entry) -> Result<(), IoStreamError> { let eid = read_id(entry); self.log.lock().unwrap().push(Ev::Recv(self.id, eid)); Ok(()) }
    fn flush(&mut self) -> std::io::Result<()> { Ok(()) }
}
fn race_once(threads: usize, per: usize, spin: u64, tl_on_first: bool, real_queue: bool) -> (Vec<(usize, u64, bool)>, Vec<Ev>) {
    let log: Log = Arc::new(Mutex::new(vec![]));
    let handle = if real_queue { RaceG::attach_to_stream(RecStream { id: 1, log: log.clone() }) }
                 else { RaceG::attach((RecSink { id: 1, log: log.clone() }, JoinProbe { id: 1, log: log.clone() })) };
    let barrier = std::sync::Barrier::new(threads + 1);
    let mut outcomes = vec![];
    std::thread::scope(|sc| {
        let mut joins = vec![];
        for t in 0..threads {
            let (barrier, log) = (&barrier, log.clone());
            joins.push(sc.spawn(move || {
                let _guard = if t == 0 && tl_on_first { Some(RaceG::set_test_sink(BoxEntrySink::new(RecSink { id: 2, log: log.clone() }))) } else { None };
                barrier.wait();
                let mut mine = vec![];
                for k in 0..per {
                    let e = ((t as u64) << 32) | k as u64;
                    match RaceG::try_append(ent(e)) { Ok(()) => mine.push((t, e, true)), Err(back) => mine.push((t, read_id(&back), false)) }
                }
                mine
            }));
        }
        barrier.wait();
        for _ in 0..spin { std::hint::spin_loop(); }
        drop(handle);
        // with the real queue the join is the queue handle's drop: everything accepted must be written by now
        if real_queue { log.lock().unwrap().push(Ev::Joined(1)); }
        for j in joins { outcomes.extend(j.join().unwrap()); }
    });
    let seen = log.lock().unwrap().clone();
    (outcomes, seen)
}
/// harness-side reading of the property for one run; None = fine
fn race_verdict(threads: usize, per: usize, tl_on_first: bool, outcomes: &[(usize, u64, bool)], log: &[Ev]) -> Option<String> {
    let joined: Vec<usize> = log.iter().enumerate().filter(|(_, e)| matches!(e, Ev::Joined(1))).map(|(i, _)| i).collect();
    if joined.len() != 1 { return Some(format!("the attached sink was joined {} times", joined.len())); }
    if log.iter().skip(joined[0] + 1).any(|e| matches!(e, Ev::Recv(1, _))) { return Some("an entry was delivered to the detached sink after its join".into()); }
    if outcomes.len() != threads * per { return Some("an appender lost an operation".into()); }
    for t in 0..threads {
        let mine: Vec<&(usize, u64, bool)> = outcomes.iter().filter(|o| o.0 == t).collect();
        let want_sink = if t == 0 && tl_on_first { 2 } else { 1 };
        let mut failed = false;
        for (k, o) in mine.iter().enumerate() {
            let e = ((t as u64) << 32) | k as u64;
            if o.1 != e { return Some(format!("entry {e:x} came back as {:x}", o.1)); }
            let hits = log.iter().filter(|x| matches!(x, Ev::Recv(_, y) if *y == e)).count();
            let right = log.iter().filter(|x| matches!(x, Ev::Recv(d, y) if *y == e && *d == want_sink)).count();
            if o.2 && (hits != 1 || right != 1) { return Some(format!("entry {e:x} reported Ok but was delivered {hits} times ({right} to the right sink)")); }
            if !o.2 && hits != 0 { return Some(format!("entry {e:x} was handed back and also delivered")); }
            if t == 0 && tl_on_first && !o.2 { return Some("an entry of the thread with a test sink was handed back".into()); }
            if failed && o.2 { return Some(format!("thread {t}: an append succeeded after an earlier one was handed back")); }
            if !o.2 { failed = true; }
        }
        // program order within the sink's log (the queue preserves the order of one producer)
        let pos: Vec<usize> = mine.iter().filter(|o| o.2).map(|o| log.iter().position(|x| matches!(x, Ev::Recv(_, y) if *y == o.1)).unwrap()).collect();
        if pos.windows(2).any(|w| w[0] > w[1]) { return Some(format!("thread {t}: entries delivered out of program order")); }
    }
    None
}
/// Code fact the model relies on: the detached (sink, handle) pair is dropped while the write lock is still held,
/// so an append that starts during the join waits and then finds no attached sink.
fn join_happens_under_the_lock() -> Result<(bool, bool), String> {
    global_entry_sink! { JoinG }
    struct Probe { tx: Mutex<Option<mpsc::Sender<(bool, bool)>>> }
    impl Drop for Probe {
        fn drop(&mut self) {
            let (done_tx, done_rx) = mpsc::channel();
            std::thread::spawn(move || { let r = JoinG::try_append(ent(7)); let _ = done_tx.send(r.is_err()); });
            // while this drop runs, the appender must not get through
            let blocked = done_rx.recv_timeout(std::time::Duration::from_millis(150)).is_err();
            let tx = self.tx.lock().unwrap().take().unwrap();
            std::thread::spawn(move || { let handed_back = done_rx.recv_timeout(std::time::Duration::from_secs(5)).unwrap_or(false); let _ = tx.send((blocked, handed_back)); });
        }
    }
    let log: Log = Arc::new(Mutex::new(vec![]));
    let (tx, rx) = mpsc::channel();
    let h = JoinG::attach((RecSink { id: 1, log }, Probe { tx: Mutex::new(Some(tx)) }));
    drop(h);
    rx.recv_timeout(std::time::Duration::from_secs(10)).map_err(|e| e.to_string())
}
fn run_race(ctx: &Ctx) {
    let mut out = Out::new(ctx, "-race");
    let mut rng = Rng::new(ctx.seed ^ 0x17);
    let runs = if ctx.replay.is_some() { 50 } else if ctx.tier_thorough { 20000 } else { 400 };
    for _ in 0..runs {
        let threads = rng.range(1, 4) as usize;
        let per = *rng.pick(&[1usize, 1, 2, 5, 20, 60]);
        let spin = *rng.pick(&[0u64, 10, 100, 1000, 5000, 20000]);
        let tl = rng.chance(1, 4);
        let real_queue = rng.chance(1, 3);
        let (outcomes, log) = race_once(threads, per, spin, tl, real_queue);
        if real_queue { out.count("race_runs_behind_real_background_queue"); }
        let case = Sx::L(vec![sx::n(threads as u64), sx::n(per as u64), sx::n(tl as u64), sx::n(real_queue as u64)]);
        if let Some(why) = race_verdict(threads, per, tl, &outcomes, &log) { out.fail(format!("append racing detach: {why}"), &case); }
        let delivered = outcomes.iter().filter(|o| o.2).count();
        out.count(if delivered == 0 { "race_all_handed_back" } else if delivered == outcomes.len() { "race_all_delivered" } else { "race_mixed_outcomes" });
        let imp = Sx::L(vec![
            Sx::L(outcomes.iter().map(|o| Sx::L(vec![sx::n(o.0 as u64), sx::n(o.1), sx::boolean(o.2)])).collect()),
            Sx::L(log.iter().map(|e| match e { Ev::Recv(s, x) => sx::tag(0, vec![sx::n(*s), sx::n(*x)]), Ev::Joined(s) => sx::tag(1, vec![sx::n(*s)]) }).collect()),
        ]);
        out.case(&case, &imp, delivered != 0 && delivered != outcomes.len());
    }
    match join_happens_under_the_lock() {
        Ok((true, true)) => out.count("join_under_write_lock_confirmed"),
        Ok((blocked, back)) => out.fail(format!("the detached sink is not joined under the write lock (append blocked: {blocked}, handed back: {back})"), &Sx::L(vec![])),
        Err(e) => out.fail(format!("join probe did not report: {e}"), &Sx::L(vec![])),
    }
    out.finish("appender threads calling try_append in a loop while another thread drops the attach handle (real threads, the RwLock is the serialisation point); non-trivial = some entries delivered and some handed back");
}

/// Installation races: `n` threads leave a spinning rendezvous and install at the same moment on one empty slot —
/// kind 0: `attach` on an unattached global, kind 1: `set_test_sink_for_tokio_runtime` on a runtime without a test
/// sink.  Exactly one call may succeed (the others panic); an entry appended afterwards goes to the winner's sink and
/// to no other; once the winner's handle / guard is dropped nothing reaches any racer's sink.
/// case (kind n); observation ((sink succeeded?)..) (sinks that received the probe) (second probe reached nobody).
fn attach_race_once(kind: u64, n: usize, delays: &[u64]) -> Sx {
    enum H { A(AttachHandle), R(TokioRuntimeTestSinkGuard) }
    let log: Log = Arc::new(Mutex::new(vec![]));
    let rt = tokio::runtime::Builder::new_current_thread().build().unwrap();
    let arrived = std::sync::atomic::AtomicUsize::new(0);
    let mut results: Vec<(u64, Option<H>)> = vec![];
    std::thread::scope(|sc| {
        let mut joins = vec![];
        for t in 0..n {
            let (log, arrived, rth, delay) = (log.clone(), &arrived, rt.handle().clone(), delays[t]);
            joins.push(sc.spawn(move || {
                let id = 10 + t as u64;
                arrived.fetch_add(1, std::sync::atomic::Ordering::SeqCst);
                while arrived.load(std::sync::atomic::Ordering::SeqCst) < n { std::hint::spin_loop(); }
                for _ in 0..delay { std::hint::spin_loop(); }
                let h = if kind == 0 {
                    crate::common::catch(move || H::A(RaceG::attach((RecSink { id, log: log.clone() }, JoinProbe { id, log }))))
                } else {
                    crate::common::catch(move || H::R(RaceG::set_test_sink_for_tokio_runtime(&rth, BoxEntrySink::new(RecSink { id, log }))))
                };
                (id, h)
            }));
        }
        for j in joins { results.push(j.join().unwrap()); }
    });
    let probe = |e: u64| -> (bool, Vec<u64>) {
        let _enter = if kind == 1 { Some(rt.enter()) } else { None };
        let ok = RaceG::try_append(ent(e)).is_ok();
        let to: Vec<u64> = log.lock().unwrap().iter().filter_map(|x| match x { Ev::Recv(d, y) if *y == e => Some(*d), _ => None }).collect();
        (ok, to)
    };
    let (_, to) = probe(777);
    let res: Vec<Sx> = results.iter().map(|(id, h)| Sx::L(vec![sx::n(*id), sx::boolean(h.is_some())])).collect();
    for (_, h) in results.drain(..) { drop(h); }
    let (ok2, to2) = probe(778);
    Sx::L(vec![Sx::L(res), Sx::L(to.into_iter().map(sx::n).collect()), sx::boolean(!ok2 && to2.is_empty())])
}
fn run_attach_race(ctx: &Ctx) {
    if std::env::var("C17_LOUD").is_err() { crate::common::quiet_panics(); }
    let mut out = Out::new(ctx, "-arace");
    let mut rng = Rng::new(ctx.seed ^ 0x1717);
    let runs = if ctx.replay.is_some() { 200 } else if ctx.tier_thorough { 60000 } else { 4000 };
    for i in 0..runs {
        let kind = (i % 2) as u64;
        let n = rng.range(2, 4) as usize;
        let delays: Vec<u64> = (0..n).map(|_| *rng.pick(&[0u64, 0, 0, 1, 3, 10, 40])).collect();
        let case = Sx::L(vec![sx::n(kind), sx::n(n as u64)]);
        let imp = attach_race_once(kind, n, &delays);
        let winners = imp.list()[0].list().iter().filter(|r| r.list()[1].num() == 1).count();
        if winners != 1 { out.fail(format!("{} of {n} racing {} calls succeeded", winners, if kind == 0 { "attach" } else { "runtime test-sink install" }), &case); }
        out.count(if kind == 0 { "attach_races" } else { "runtime_install_races" });
        out.case(&case, &imp, true);
    }
    out.finish("2-4 real threads leave a spinning rendezvous and call attach on one unattached global (resp. install a test sink on one tokio runtime) at the same moment; exactly one may succeed, the entry appended afterwards reaches the winner's sink only, and nothing reaches a racer's sink once the winner's handle is dropped. Unscheduled (the window is a few instructions inside the macro-generated function)");
}

pub fn run(ctx: &Ctx) {
    run_race(ctx);
    run_attach_race(ctx);
    if std::env::var("C17_LOUD").is_err() { crate::common::quiet_panics(); }
    let mut out = Out::new(ctx, "");
    if let Some(p) = &ctx.replay {
        for line in std::fs::read_to_string(p).unwrap().lines().filter(|l| l.starts_with('(')) {
            let case = sx::parse(line);
            let (imp, nt, err) = exec(&case);
            if let Some(e) = err { out.fail(format!("harness could not run the case: {e}"), &case); }
            out.case(&case, &imp, nt);
        }
        out.finish("replay");
        return;
    }
    let thorough = ctx.tier_thorough;
    // exhaustive: every history up to the tier's length over a small alphabet on one global
    let ca = Cx { t: 0, rt: Some(0) };
    let cb = Cx { t: 1, rt: None };
    let cw = Cx { t: NTHREADS, rt: Some(0) };
    let alphabet = |pos: usize| -> Vec<Op> {
        let s = 10 + pos as u64; let e = 0x100 + pos as u64;
        vec![Op::Attach(0, ca, s), Op::DropHandle(cb, 0), Op::SetTL(0, ca, s), Op::DropTL(0), Op::SetRT(0, cb, 0, s), Op::DropRT(ca, 0),
             Op::TryAppend(0, ca, e), Op::TryAppend(0, cb, e), Op::Append(0, cw, e)]
    };
    let depth = if thorough { 4 } else { 3 };
    fn rec(pre: &mut Vec<Op>, depth: usize, alphabet: &dyn Fn(usize) -> Vec<Op>, f: &mut dyn FnMut(&[Op])) {
        if !pre.is_empty() { f(pre); }
        if pre.len() == depth { return; }
        for o in alphabet(pre.len()) { pre.push(o); rec(pre, depth, alphabet, f); pre.pop(); }
    }
    let mut all: Vec<Vec<Op>> = vec![];
    rec(&mut vec![], depth, &alphabet, &mut |ops| all.push(ops.to_vec()));
    for ops in &all { emit(&mut out, ops, "exhaustive_small_histories"); }
    // the histories that drop a handle or guard, once more with every such drop placed on an unwinding frame
    for ops in all.iter().filter(|o| o.iter().any(|x| matches!(x, Op::DropHandle(..) | Op::DropTL(..) | Op::DropRT(..)))) {
        emit_placed(&mut out, ops, "histories_with_drops_during_unwind", true);
    }
    // random histories
    let mut rng = Rng::new(ctx.seed);
    let n = if thorough { 120000 } else { 4000 };
    let mut forget_budget = if thorough { 70 } else { 40 };
    for i in 0..n {
        let len = rng.range(1, if thorough { 25 } else { 12 }) as usize;
        let forget = forget_budget > 0 && i % 50 == 7;
        if forget { forget_budget -= 1; }
        let nglobals = if forget { 1 } else { rng.range(1, 3) as usize };
        let ops = g_ops(&mut rng, len, nglobals, forget);
        emit(&mut out, &ops, if forget { "random_histories_with_forget" } else { "random_histories" });
        if !forget && i % 5 == 0 { emit_placed(&mut out, &ops, "histories_with_drops_during_unwind", true); }
    }
    out.finish("operation histories (attach / drop / forget handle, thread-local and runtime test sinks and their guards, append / try_append / sink() / held sinks / is_attached / with_test_sink) over up to 3 globals, 3 OS threads (each optionally entered into one of 2 tokio runtimes) and the 2 runtimes' worker threads; exhaustive small histories on one global plus random ones. Non-trivial = at least one install and one append; distinct by hash of the case");
}
