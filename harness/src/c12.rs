//! C12 — sampling: the fixed-fraction decision, the EMF weight (rate -> multiplicity) and the congressional
//! sampler, each driven with scripted random draws.
//!
//! Suites: "-d" decision/weight cases `(0|2|3|4|6 ..)`, "-g" congressional histories `(5 target (op..))`.
use crate::common::{Ctx, Out, Rng, catch};
use crate::sx::{self, Sx};
use metrique_writer::sample::{CongressSample, CongressSampleBuilder, FixedFractionSample, SampledFormat};
use metrique_writer_core::format::Format;
use metrique_writer_core::value::MetricFlags;
use metrique_writer_core::{Entry, EntryWriter, IoStreamError, Observation, Unit, Value, ValueWriter};
use metrique_writer_format_emf::{Emf, verif_rate_to_n, verif_rate_to_n_alpha};
use rand::RngCore;
use std::borrow::Cow;
use std::cell::RefCell;
use std::collections::VecDeque;
use std::io;
use std::rc::Rc;
use std::time::{Duration, UNIX_EPOCH};

// ------------------------------------------------------------------------------------------ scripted RNG
#[derive(Default)]
struct Tape {
    vals: VecDeque<u64>,
    used32: u64,
    used64: u64,
    starved: bool,
}
#[derive(Clone, Default)]
struct ScriptRng(Rc<RefCell<Tape>>);
impl ScriptRng {
    fn push(&self, v: u64) {
        self.0.borrow_mut().vals.push_back(v);
    }
    fn clear(&self) {
        self.0.borrow_mut().vals.clear();
    }
    fn used(&self) -> (u64, u64) {
        let t = self.0.borrow();
        (t.used32, t.used64)
    }
}
impl RngCore for ScriptRng {
    fn next_u32(&mut self) -> u32 {
        let mut t = self.0.borrow_mut();
        t.used32 += 1;
        match t.vals.pop_front() {
            Some(v) => v as u32,
            None => { t.starved = true; 0 }
        }
    }
    fn next_u64(&mut self) -> u64 {
        let mut t = self.0.borrow_mut();
        t.used64 += 1;
        match t.vals.pop_front() {
            Some(v) => v,
            None => { t.starved = true; 0 }
        }
    }
    fn fill_bytes(&mut self, dest: &mut [u8]) {
        // not used by `random::<f32>()` / `random::<f64>()`; make any use visible
        self.0.borrow_mut().starved = true;
        for b in dest { *b = 0; }
    }
}

// ------------------------------------------------------------------------------------------ recording format
#[derive(Clone, Default)]
struct RecFormat(Rc<RefCell<Vec<Option<u32>>>>);
impl Format for RecFormat {
    fn format(&mut self, _entry: &impl Entry, _output: &mut impl io::Write) -> Result<(), IoStreamError> {
        self.0.borrow_mut().push(None); // unsampled path: never expected from a sampler
        Ok(())
    }
}
impl SampledFormat for RecFormat {
    fn format_with_sample_rate(&mut self, _entry: &impl Entry, _output: &mut impl io::Write, rate: f32) -> Result<(), IoStreamError> {
        self.0.borrow_mut().push(Some(rate.to_bits()));
        Ok(())
    }
}

// ------------------------------------------------------------------------------------------ entries
struct ObsValue<'a>(&'a [Observation]);
impl Value for ObsValue<'_> {
    fn write(&self, writer: impl ValueWriter) {
        writer.metric(self.0.iter().copied(), Unit::None, [], MetricFlags::empty())
    }
}
struct ObsEntry {
    metrics: Vec<Vec<Observation>>,
    group: Vec<(String, String)>,
}
impl Entry for ObsEntry {
    fn write<'a>(&'a self, w: &mut impl EntryWriter<'a>) {
        w.timestamp(UNIX_EPOCH + Duration::from_secs(1_700_000_000));
        for (i, m) in self.metrics.iter().enumerate() {
            w.value(format!("m{i}"), &ObsValue(m));
        }
    }
    fn sample_group(&self) -> impl Iterator<Item = (Cow<'static, str>, Cow<'static, str>)> {
        self.group.clone().into_iter().map(|(k, v)| (Cow::Owned(k), Cow::Owned(v)))
    }
}

#[derive(Clone, Copy, Debug)]
enum Kind { U, F, R(u64) }
fn enc_kind(k: &Kind) -> Sx {
    match k { Kind::U => sx::tag(0, vec![]), Kind::F => sx::tag(1, vec![]), Kind::R(n) => sx::tag(2, vec![sx::n(*n)]) }
}
fn dec_kind(x: &Sx) -> Kind {
    match x.tag() { 0 => Kind::U, 1 => Kind::F, _ => Kind::R(x.arg(0).num() as u64) }
}
fn obs_of(k: &Kind, i: usize) -> Observation {
    match k {
        Kind::U => Observation::Unsigned(3 + i as u64),
        Kind::F => Observation::Floating(0.5 + i as f64),
        Kind::R(n) => Observation::Repeated { total: 7.0 * (i as f64 + 1.0), occurrences: *n },
    }
}

/// Counts arrays of the metrics m0.. of one EMF line, in order.
fn counts_of_emf(out: &[u8], nmetrics: usize) -> Option<Vec<Vec<u64>>> {
    let v: serde_json::Value = serde_json::from_slice(out).ok()?;
    let mut res = vec![];
    for i in 0..nmetrics {
        let m = v.get(format!("m{i}"))?;
        let counts = m.get("Counts")?.as_array()?;
        res.push(counts.iter().map(|c| c.as_u64()).collect::<Option<Vec<u64>>>()?);
    }
    Some(res)
}

fn emf() -> Emf {
    Emf::all_validations("C12".into(), vec![vec![]])
}

// ------------------------------------------------------------------------------------------ decision / weight cases
pub fn exec_case(case: &Sx) -> Option<Sx> {
    let rate = f32::from_bits(case.arg(0).num() as u32);
    Some(match case.tag() {
        0 => {
            let rng = ScriptRng::default();
            rng.push(case.arg(1).num() as u64);
            let rec = RecFormat::default();
            let r2 = rng.clone();
            let rec2 = rec.clone();
            let res = catch(move || {
                let mut s = FixedFractionSample::with_rng(rec2, rate, r2);
                let e = ObsEntry { metrics: vec![], group: vec![] };
                s.format(&e, &mut io::sink()).is_ok()
            })?;
            if !res || rng.used() != (1, 0) || rng.0.borrow().starved { return None; }
            let calls = rec.0.borrow();
            match calls.as_slice() {
                [] => Sx::L(vec![]),
                [Some(bits)] => Sx::L(vec![sx::n(*bits)]),
                _ => return None,
            }
        }
        2 => {
            let (n, alpha) = catch(|| verif_rate_to_n_alpha(rate))?;
            Sx::L(vec![sx::n(n), sx::n(if alpha.is_nan() { 0x7ff8_0000_0000_0000 } else { alpha.to_bits() })])
        }
        3 => {
            let mut rng = ScriptRng::default();
            rng.push(case.arg(1).num() as u64);
            let n = catch(|| verif_rate_to_n(rate, &mut rng))?;
            sx::n(n)
        }
        4 => {
            let rng = ScriptRng::default();
            rng.push(case.arg(1).num() as u64);
            let mut f = emf().with_sampling_and_rng(rng.clone());
            let e = ObsEntry { metrics: vec![vec![Observation::Unsigned(1)]], group: vec![] };
            let mut out = vec![];
            match catch(|| f.format_with_sample_rate(&e, &mut out, rate))? {
                Err(_) => Sx::L(vec![]),
                Ok(()) => Sx::L(vec![sx::n(counts_of_emf(&out, 1)?[0][0])]),
            }
        }
        6 => {
            let kinds: Vec<Vec<Kind>> = case.arg(3).list().iter().map(|m| m.list().iter().map(dec_kind).collect()).collect();
            let r1 = ScriptRng::default();
            r1.push(case.arg(1).num() as u64);
            let r2 = ScriptRng::default();
            r2.push(case.arg(2).num() as u64);
            let e = ObsEntry { metrics: kinds.iter().map(|m| m.iter().enumerate().map(|(i, k)| obs_of(k, i)).collect()).collect(), group: vec![] };
            let mut out = vec![];
            let (r1c, r2c) = (r1.clone(), r2.clone());
            let ok = catch(|| {
                let mut s = FixedFractionSample::with_rng(emf().with_sampling_and_rng(r2c), rate, r1c);
                s.format(&e, &mut out).is_ok()
            })?;
            if !ok || r1.0.borrow().starved || r2.0.borrow().starved { return None; }
            if out.is_empty() {
                Sx::L(vec![])
            } else {
                let cs = counts_of_emf(&out, kinds.len())?;
                Sx::L(vec![Sx::L(cs.iter().map(|c| Sx::L(c.iter().map(|x| sx::n(*x)).collect())).collect())])
            }
        }
        _ => return None,
    })
}

/// 2^e as f32, exact for -149 <= e <= 127
fn p2(e: i32) -> f32 {
    if e >= -126 { f32::from_bits(((127 + e) as u32) << 23) } else { f32::from_bits(1u32 << (149 + e)) }
}
/// f32 rates in (0, 1] worth looking at
fn gen_rate(rng: &mut Rng, lo_exp: i32) -> f32 {
    match rng.below(12) {
        0 => 1.0,
        1 => f32::from_bits(1.0f32.to_bits() - 1 - rng.below(4) as u32),          // just below 1
        2 => p2(-(rng.below((-lo_exp) as u64 + 1) as i32)),                   // power of two
        3 => 1.0 / (rng.range(2, 1000) as f32),                                      // 1/k
        4 => [0.5f32, 0.4, 0.3, 0.225, 0.1, 0.01, 0.75, 0.9, 0.999, 0.0015, 1.5e-38][rng.below(11) as usize].max(p2(lo_exp)),
        5 => (rng.range(1, 999) as f32) / 1000.0,
        6 => { // a power of two's neighbours
            let p = p2(-(rng.below((-lo_exp) as u64) as i32));
            f32::from_bits((p.to_bits() as i64 + rng.range(0, 4) as i64 - 2) as u32).min(1.0)
        }
        _ => { // random mantissa, exponent uniform in [lo_exp, -1]
            let e = -(rng.range(1, (-lo_exp) as u64) as i32);
            let m = rng.below(1 << 23) as u32;
            f32::from_bits((((127 + e) as u32) << 23) | m)
        }
    }
}
fn rate_class(r: f32) -> &'static str {
    if r == 1.0 { "rate_one" }
    else if r >= 0.5 { "rate_half_to_one" }
    else if r >= p2(-24) { "rate_2^-24_to_half" }
    else if r >= p2(-53) { "rate_2^-53_to_2^-24" }
    else if r >= p2(-63) { "rate_2^-63_to_2^-53" }
    else if r >= f32::MIN_POSITIVE { "rate_below_2^-63_normal" }
    else if r > 0.0 { "rate_subnormal" }
    else { "rate_nonpositive_or_nan" }
}
/// u32 draws around the decision threshold of `rate`
fn draw32_near(rng: &mut Rng, rate: f32) -> u64 {
    let k = (rate as f64 * 16777216.0).floor() as i64;
    let k = match rng.below(8) {
        0 => k - 1,
        1 | 2 => k,
        3 => k + 1,
        4 => 0,
        5 => (1 << 24) - 1,
        _ => rng.below(1 << 24) as i64,
    }.clamp(0, (1 << 24) - 1) as u64;
    (k << 8) | rng.below(256)
}
fn draw64_near(rng: &mut Rng, alpha: f64) -> u64 {
    let k = if alpha.is_finite() { (alpha * 9007199254740992.0).floor().clamp(0.0, 9007199254740991.0) as i64 } else { 0 };
    let k = match rng.below(8) {
        0 => k - 1,
        1 | 2 => k,
        3 => k + 1,
        4 => 0,
        5 => (1 << 53) - 1,
        _ => rng.below(1 << 53) as i64,
    }.clamp(0, (1 << 53) - 1) as u64;
    (k << 11) | rng.below(2048)
}

// ------------------------------------------------------------------------------------------ exhaustive sweep
/// 1/rate correctly rounded to binary64 (round to nearest, ties to even), by integer arithmetic only.
/// rate must be finite and positive. Returns (mantissa in [2^52, 2^53), exponent E) with value = mantissa * 2^E.
fn exact_inverse(rate: f32) -> (u64, i32) {
    let bits = rate.to_bits();
    let be = ((bits >> 23) & 0xff) as i32;
    let (m, e) = if be == 0 { ((bits & 0x7f_ffff) as u128, -149) } else { (((bits & 0x7f_ffff) | 0x80_0000) as u128, be - 150) };
    // 1/rate = 2^-e / m; take k with 2^k / m having 55 or 56 bits
    let bl = 128 - m.leading_zeros() as i32;
    let k = bl + 55;
    let q = (1u128 << k) / m;
    let sticky = (1u128 << k) % m != 0;
    let qb = 128 - q.leading_zeros() as i32;
    let mut shift = qb - 53;
    let mut mant = (q >> shift) as u64;
    let rem = q & ((1u128 << shift) - 1);
    let half = 1u128 << (shift - 1);
    if rem > half || (rem == half && (sticky || mant & 1 == 1)) {
        mant += 1;
        if mant == 1 << 53 { mant >>= 1; shift += 1; }
    }
    (mant, shift - k - e)
}
/// the (n, alpha) the specification prescribes for an inverse below 2^53, from the exact inverse
fn expected_split(mant: u64, e: i32) -> Option<(u64, u64)> {
    if e >= 0 || e < -52 { return None; }
    let sh = (-e) as u32;
    let n = mant >> sh;
    let frac = mant & ((1u64 << sh) - 1);
    let num = (1u64 << sh) - frac; // alpha = num * 2^e, exactly representable (num <= 2^52)
    let alpha = (num as f64) * f64::from_bits(((1023 + e) as u64) << 52);
    Some((n, alpha.to_bits()))
}
/// Every f32 rate with exponent in [lo_exp, 0]: the real rate_to_n_alpha against integer arithmetic.
fn sweep_all_rates(lo_exp: i32, threads: u32) -> (u64, Vec<u32>) {
    let first = p2(lo_exp).to_bits();
    let last = 1.0f32.to_bits();
    let total = (last - first + 1) as u64;
    let chunk = (total + threads as u64 - 1) / threads as u64;
    let mut bad: Vec<u32> = vec![];
    std::thread::scope(|sc| {
        let hs: Vec<_> = (0..threads).map(|t| {
            sc.spawn(move || {
                let lo = first as u64 + t as u64 * chunk;
                let hi = (lo + chunk).min(last as u64 + 1);
                let mut bad = vec![];
                for b in lo..hi {
                    let rate = f32::from_bits(b as u32);
                    let (mant, e) = exact_inverse(rate);
                    let (n, alpha) = verif_rate_to_n_alpha(rate);
                    let inv_bits = (((1023 + 52 + e) as u64) << 52) | (mant & ((1 << 52) - 1));
                    let ok = match expected_split(mant, e) {
                        Some((en, ea)) => n == en && alpha.to_bits() == ea,
                        // integer inverse (>= 2^52): n is the inverse itself, alpha is whatever (n+1) as f64 - inv gives
                        None => e >= 0 && (n as u128) == (mant as u128) << e && alpha == ((n + 1) as f64 - f64::from_bits(inv_bits)),
                    };
                    if !ok && bad.len() < 10 { bad.push(b as u32); }
                }
                bad
            })
        }).collect();
        for h in hs { bad.extend(h.join().unwrap()); }
    });
    (total, bad)
}

/// Light-weight stand-ins for the decision sweep (no allocation per call).
struct OneDraw(u32, u32);
impl RngCore for OneDraw {
    fn next_u32(&mut self) -> u32 { self.1 += 1; self.0 }
    fn next_u64(&mut self) -> u64 { self.1 += 100; 0 }
    fn fill_bytes(&mut self, dest: &mut [u8]) { self.1 += 100; for b in dest { *b = 0; } }
}
struct LastRate<'a>(&'a std::cell::Cell<(Option<u32>, u32)>);
impl Format for LastRate<'_> {
    fn format(&mut self, _e: &impl Entry, _o: &mut impl io::Write) -> Result<(), IoStreamError> {
        let (r, n) = self.0.get();
        self.0.set((r, n + 100));
        Ok(())
    }
}
impl SampledFormat for LastRate<'_> {
    fn format_with_sample_rate(&mut self, _e: &impl Entry, _o: &mut impl io::Write, rate: f32) -> Result<(), IoStreamError> {
        let (_, n) = self.0.get();
        self.0.set((Some(rate.to_bits()), n + 1));
        Ok(())
    }
}
/// does the 24-bit draw k (value k * 2^-24) satisfy k * 2^-24 <= rate, by integer arithmetic
fn emits_exact(rate: f32, k: u32) -> bool {
    let bits = rate.to_bits();
    let be = ((bits >> 23) & 0xff) as i32;
    let (m, e) = if be == 0 { ((bits & 0x7f_ffff) as u128, -149) } else { (((bits & 0x7f_ffff) | 0x80_0000) as u128, be - 150) };
    let sh = e + 24; // k <= m * 2^sh
    if sh >= 0 { (k as u128) <= m << sh.min(64) } else if -sh >= 100 { k == 0 } else { (k as u128) << (-sh) <= m }
}
/// Every positive f32 rate up to 1.0, draws at floor(rate * 2^24) + {-1, 0, 1}: the real FixedFractionSample decision
/// against integer arithmetic. Returns (decisions made, failing (rate bits, u32) pairs).
fn sweep_all_decisions(threads: u32) -> (u64, Vec<(u32, u32)>) {
    let first = 1u64;
    let last = 1.0f32.to_bits() as u64;
    let total = last - first + 1;
    let chunk = (total + threads as u64 - 1) / threads as u64;
    let mut bad = vec![];
    let mut n = 0u64;
    std::thread::scope(|sc| {
        let hs: Vec<_> = (0..threads).map(|t| {
            sc.spawn(move || {
                let lo = first + t as u64 * chunk;
                let hi = (lo + chunk).min(last + 1);
                let mut bad = vec![];
                let mut n = 0u64;
                let e = ObsEntry { metrics: vec![], group: vec![] };
                for b in lo..hi {
                    let rate = f32::from_bits(b as u32);
                    let t0 = ((rate as f64) * 16777216.0).floor() as i64;
                    for d in [-1i64, 0, 1] {
                        let k = (t0 + d).clamp(0, (1 << 24) - 1) as u32;
                        let u = k << 8 | 0xa5;
                        let cell = std::cell::Cell::new((None, 0u32));
                        let mut s = FixedFractionSample::with_rng(LastRate(&cell), rate, OneDraw(u, 0));
                        let ok = s.format(&e, &mut io::sink()).is_ok();
                        let f = cell.get();
                        let expect = emits_exact(rate, k);
                        let got = f.0 == Some(rate.to_bits());
                        if !ok || expect != got || (f.0.is_some() && !got) || f.1 != expect as u32 {
                            if bad.len() < 10 { bad.push((b as u32, u)); }
                        }
                        n += 1;
                    }
                }
                (n, bad)
            })
        }).collect();
        for h in hs { let (c, b) = h.join().unwrap(); n += c; bad.extend(b); }
    });
    (n, bad)
}

// ------------------------------------------------------------------------------------------ congressional histories
type Group = Vec<(u64, u64)>;
fn group_strings(g: &Group) -> Vec<(String, String)> {
    g.iter().map(|(k, v)| (format!("k{k:02}"), format!("v{v:03}"))).collect()
}
fn enc_group(g: &Group) -> Sx {
    Sx::L(g.iter().map(|(k, v)| Sx::L(vec![sx::n(*k), sx::n(*v)])).collect())
}
fn dec_group(x: &Sx) -> Group {
    x.list().iter().map(|p| (p.list()[0].num() as u64, p.list()[1].num() as u64)).collect()
}
fn parse_group_key(k: &[(String, String)]) -> Group {
    k.iter().map(|(a, b)| (a[1..].parse().unwrap_or(0), b[1..].parse().unwrap_or(0))).collect()
}

enum COp { Observe(Group, Option<u64>), End }

struct Congress {
    s: CongressSample<RecFormat, ScriptRng>,
    rec: RecFormat,
    rng: ScriptRng,
}
fn new_congress(target: u32) -> Congress {
    let rec = RecFormat::default();
    let rng = ScriptRng::default();
    let s = CongressSampleBuilder::default()
        .interval(Duration::from_secs(86_400 * 3650)) // the interval never ends by the clock: triggered by hand
        .target_entries_per_interval(target)
        .build_with_rng(rec.clone(), rng.clone());
    // the first format() call must see `now > next_interval_start` (it then runs update_rates on the empty state)
    std::thread::sleep(Duration::from_millis(2));
    Congress { s, rec, rng }
}
/// Runs the ops; `choose` picks the u32 draw for an observation given the group's current rate (None = not yet known).
fn exec_congress(target: u32, ops: &mut [COp], rng: &mut Rng) -> Option<Sx> {
    let mut c = new_congress(target);
    let mut outs = vec![];
    for op in ops.iter_mut() {
        match op {
            COp::Observe(g, draw) => {
                if draw.is_none() {
                    let mut sorted = g.clone();
                    sorted.sort();
                    let cur = c.s.verif_group_states().into_iter().find(|st| parse_group_key(&st.0) == sorted).map(|st| st.1).unwrap_or(1.0);
                    *draw = Some(draw32_near(rng, cur));
                }
                c.rng.clear();
                c.rng.push(draw.unwrap());
                let before = c.rng.used();
                let nrec = c.rec.0.borrow().len();
                let e = ObsEntry { metrics: vec![], group: group_strings(g) };
                if catch(|| c.s.format(&e, &mut io::sink()).is_ok()) != Some(true) { return None; }
                let after = c.rng.used();
                if after.1 != before.1 || c.rng.0.borrow().starved { return None; }
                let consumed = after.0 - before.0;
                let calls = c.rec.0.borrow();
                let emitted: Option<u32> = match &calls[nrec..] { [] => None, [Some(b)] => Some(*b), _ => return None };
                // the rate the sampler used for this entry: the group's rate (a new group starts at 1.0)
                let mut sorted = g.clone();
                sorted.sort();
                // (looked up under the sorted key; a sampler that forgot to sort would store it as given)
                let rate_now = c.s.verif_group_states().into_iter().find(|st| { let k = parse_group_key(&st.0); k == sorted || k == *g }).map(|st| st.1)?;
                outs.push(sx::tag(0, vec![sx::opt(emitted.map(sx::n)), sx::n(rate_now.to_bits()), sx::n(consumed)]));
            }
            COp::End => {
                let seen = c.s.verif_current_observed();
                c.s.verif_update_rates();
                let mut st = c.s.verif_group_states();
                st.sort_by(|a, b| a.0.cmp(&b.0));
                outs.push(sx::tag(1, vec![sx::n(seen), Sx::L(st.iter().map(|g| Sx::L(vec![
                    enc_group(&parse_group_key(&g.0)), sx::n(g.1.to_bits()), sx::n(g.2.to_bits()), sx::n(g.3), sx::n(g.4), sx::n(g.5.to_bits())])).collect())]));
            }
        }
    }
    Some(Sx::L(outs))
}
fn enc_congress_case(target: u32, ops: &[COp]) -> Sx {
    sx::tag(5, vec![sx::n(target), Sx::L(ops.iter().map(|o| match o {
        COp::Observe(g, d) => sx::tag(0, vec![enc_group(g), sx::n(d.unwrap_or(0))]),
        COp::End => sx::tag(1, vec![]),
    }).collect())])
}
fn dec_congress_case(c: &Sx) -> (u32, Vec<COp>) {
    (c.arg(0).num() as u32, c.arg(1).list().iter().map(|o| match o.tag() {
        0 => COp::Observe(dec_group(o.arg(0)), Some(o.arg(1).num() as u64)),
        _ => COp::End,
    }).collect())
}

/// per-interval volumes of one group over the history
fn volumes(rng: &mut Rng, intervals: usize, scale: u64) -> Vec<u64> {
    let base = match rng.below(5) { 0 => 1, 1 => rng.range(1, 3), 2 => rng.range(1, scale.max(2)), 3 => scale, _ => rng.range(scale / 2 + 1, 3 * scale + 1) };
    let profile = rng.below(6);
    let start = if profile == 4 { rng.below(intervals as u64) as usize } else { 0 };
    let gone_from = if profile == 3 { rng.below(intervals as u64) as usize } else { usize::MAX };
    let back_at = if profile == 3 { gone_from.saturating_add(rng.range(1, 12) as usize) } else { usize::MAX };
    (0..intervals).map(|i| {
        if i < start || (i >= gone_from && i < back_at) { 0 }
        else {
            match profile {
                1 => if rng.chance(1, 5) { base * rng.range(5, 12) } else { base },             // bursts
                2 => if rng.chance(1, 3) { 0 } else { base },                                 // intermittent
                5 => rng.range(0, 2 * base),                                                    // noisy
                _ => base,
            }
        }
    }).collect()
}

pub fn run(ctx: &Ctx) {
    crate::common::quiet_panics();
    let mut outd = Out::new(ctx, "-d");
    let mut outg = Out::new(ctx, "-g");
    let mut rng = Rng::new(ctx.seed);

    let do_case = |out: &mut Out, case: Sx, nontrivial: bool| {
        match exec_case(&case) {
            Some(imp) => out.case(&case, &imp, nontrivial),
            None => out.fail("the implementation panicked, failed or used its random source differently than scripted".into(), &case),
        }
    };
    let do_congress = |out: &mut Out, target: u32, ops: &mut Vec<COp>, rng: &mut Rng| {
        match exec_congress(target, ops, rng) {
            Some(imp) => {
                let case = enc_congress_case(target, ops);
                let sampled = imp.list().iter().any(|o| o.tag() == 1 && o.arg(0).num() > target as u128);
                out.case(&case, &imp, sampled);
            }
            None => out.fail("congressional sampler: panic, error or unexpected use of the random source".into(), &enc_congress_case(target, ops)),
        }
    };

    if let Some(p) = &ctx.replay {
        for line in std::fs::read_to_string(p).unwrap().lines().filter(|l| l.starts_with('(')) {
            let c = sx::parse(line);
            if c.tag() == 5 {
                let (target, mut ops) = dec_congress_case(&c);
                do_congress(&mut outg, target, &mut ops, &mut rng);
            } else {
                do_case(&mut outd, c, true);
            }
        }
        outd.finish("replay");
        outg.finish("replay");
        return;
    }

    // ---- fixed-fraction decision: rates x draws around the threshold
    let n_dec = if ctx.tier_thorough { 200_000 } else { 20_000 };
    for i in 0..n_dec {
        // with_rng asserts 0 < rate <= 1 and finite; subnormal rates are allowed
        let rate = if i % 50 == 0 { f32::from_bits(rng.range(1, 0x7f_ffff) as u32) } else { gen_rate(&mut rng, -126) };
        let u = draw32_near(&mut rng, rate);
        outd.count(&format!("decision_{}", rate_class(rate)));
        let k = (u >> 8) as f64;
        let t = rate as f64 * 16777216.0;
        outd.count(if (k - t).abs() <= 1.0 { "decision_draw_at_threshold" } else { "decision_draw_elsewhere" });
        do_case(&mut outd, sx::tag(0, vec![sx::n(rate.to_bits()), sx::n(u)]), (k - t).abs() <= 1.0 && rate < 1.0);
    }
    // every power of two rate, all three draws around its threshold
    for e in 0..=149 {
        let rate = p2(-e);
        for d in [-1i64, 0, 1] {
            let k = ((rate as f64 * 16777216.0).floor() as i64 + d).clamp(0, (1 << 24) - 1) as u64;
            outd.count("decision_power_of_two_rate");
            do_case(&mut outd, sx::tag(0, vec![sx::n(rate.to_bits()), sx::n(k << 8)]), true);
        }
    }

    // ---- weight: the (n, alpha) split, the choice, the Counts
    let n_w = if ctx.tier_thorough { 200_000 } else { 20_000 };
    for e in 0..=63 {
        let rate = p2(-e);
        for r in [rate, f32::from_bits(rate.to_bits() + 1), f32::from_bits(rate.to_bits() - 1)] {
            if r <= 1.0 && r > p2(-64) {
                outd.count("split_power_of_two_and_neighbours");
                do_case(&mut outd, sx::tag(2, vec![sx::n(r.to_bits())]), true);
            }
        }
    }
    for _ in 0..n_w {
        let rate = gen_rate(&mut rng, -63);
        outd.count(&format!("weight_{}", rate_class(rate)));
        do_case(&mut outd, sx::tag(2, vec![sx::n(rate.to_bits())]), rate < 1.0);
        let alpha = verif_rate_to_n_alpha(rate).1;
        let u = draw64_near(&mut rng, alpha);
        do_case(&mut outd, sx::tag(3, vec![sx::n(rate.to_bits()), sx::n(u)]), rate < 1.0);
    }
    // saturation: rates below 2^-63 (normal and subnormal), and the boundary itself
    for _ in 0..(n_w / 20) {
        let rate = match rng.below(4) {
            0 => f32::from_bits(rng.range(1, 0x7f_ffff) as u32),
            1 => p2(-63),
            2 => f32::from_bits(p2(-63).to_bits() - 1 - rng.below(3) as u32),
            _ => f32::from_bits((rng.range(1, 63) as u32) << 23 | rng.below(1 << 23) as u32),
        };
        outd.count(&format!("weight_{}", rate_class(rate)));
        do_case(&mut outd, sx::tag(3, vec![sx::n(rate.to_bits()), sx::n(rng.next())]), true);
    }
    // format_with_sample_rate incl. invalid rates
    for _ in 0..(n_w / 10) {
        let rate = match rng.below(8) {
            0 => 0.0,
            1 => -0.0,
            2 => -gen_rate(&mut rng, -63),
            3 => f32::NAN,
            4 => f32::from_bits(rng.range(1, 0x7f_ffff) as u32),
            _ => gen_rate(&mut rng, -70),
        };
        outd.count(&format!("sampled_emf_{}", rate_class(rate)));
        let alpha = if rate > p2(-64) { verif_rate_to_n_alpha(rate).1 } else { 0.5 };
        do_case(&mut outd, sx::tag(4, vec![sx::n(rate.to_bits()), sx::n(draw64_near(&mut rng, alpha))]), true);
    }
    // the whole pipeline: FixedFractionSample<SampledEmf>, several metrics, all observation kinds
    for _ in 0..(n_w / 10) {
        let rate = gen_rate(&mut rng, -70);
        let nm = rng.range(1, 4) as usize;
        let kinds: Vec<Vec<Kind>> = (0..nm).map(|_| (0..rng.range(1, 4)).map(|_| match rng.below(4) {
            0 => Kind::U,
            1 => Kind::F,
            2 => Kind::R(rng.range(0, 5)),
            _ => Kind::R(if rng.chance(1, 2) { rng.next() >> rng.below(64) } else { u64::MAX }),
        }).collect()).collect();
        let alpha = if rate > p2(-64) { verif_rate_to_n_alpha(rate).1 } else { 0.5 };
        // emitted often enough: bias the u32 draw towards "at most the rate"
        let u1 = if rng.chance(2, 3) { (((rate as f64 * 16777216.0).floor() as u64).min((1 << 24) - 1) * rng.below(1000) / 1000) << 8 } else { draw32_near(&mut rng, rate) };
        outd.count("pipeline");
        do_case(&mut outd, sx::tag(6, vec![sx::n(rate.to_bits()), sx::n(u1), sx::n(draw64_near(&mut rng, alpha)),
            Sx::L(kinds.iter().map(|m| Sx::L(m.iter().map(enc_kind).collect())).collect())]), true);
    }

    // ---- every f32 rate: the implementation's (n, alpha) against correctly rounded integer arithmetic
    {
        let lo = -63;
        let t0 = std::time::Instant::now();
        let (total, bad) = sweep_all_rates(lo, 8);
        outd.add("sweep_every_f32_rate_in_range", total);
        outd.notes.push(format!("exhaustive sweep of all {total} f32 rates in [2^{lo}, 1]: rate_to_n_alpha of the implementation equals (floor(inv), floor(inv)+1-inv) for inv = 1/rate correctly rounded by integer arithmetic ({} mismatches, {:.1} s)", bad.len(), t0.elapsed().as_secs_f64()));
        for b in bad {
            outd.fail("rate_to_n_alpha differs from the exact split of the correctly rounded inverse rate".into(), &sx::tag(2, vec![sx::n(b)]));
        }
    }

    // ---- every positive f32 rate up to 1.0, the real decision at the three draws around its threshold
    {
        let t0 = std::time::Instant::now();
        let (n, bad) = sweep_all_decisions(8);
        outd.add("sweep_decisions_every_f32_rate", n);
        outd.notes.push(format!("exhaustive decision sweep: all {} positive f32 rates up to 1.0 (subnormals included) x the three 24-bit draws around the threshold, {n} real FixedFractionSample::format calls against integer arithmetic ({} mismatches, {:.1} s)", n / 3, bad.len(), t0.elapsed().as_secs_f64()));
        for (b, u) in bad {
            outd.fail("FixedFractionSample decision differs from `draw <= rate` (or hands on another rate)".into(), &sx::tag(0, vec![sx::n(b), sx::n(u)]));
        }
    }

    // ---- congressional histories
    let n_hist = if ctx.tier_thorough { 400 } else { 60 };
    for h in 0..n_hist {
        let target = *rng.pick(&[1u32, 2, 5, 10, 20, 50, 100]);
        let ngroups = rng.range(1, 12) as usize;
        let intervals = rng.range(1, if ctx.tier_thorough { 40 } else { 25 }) as usize;
        let two_keys = rng.chance(1, 4);
        let groups: Vec<Group> = (0..ngroups).map(|i| if two_keys { vec![(1, i as u64 % 3), (0, i as u64 / 3)] } else { vec![(0, i as u64)] }).collect();
        // per-group scale so that the total is around 0 .. 4 x target
        let scale = ((target as u64 * rng.range(1, 4)) / ngroups as u64).max(1);
        let vols: Vec<Vec<u64>> = (0..ngroups).map(|_| volumes(&mut rng, intervals, scale)).collect();
        let mut ops: Vec<COp> = vec![];
        if h % 7 == 0 { ops.push(COp::End); outg.count("history_starts_with_empty_interval"); }
        for i in 0..intervals {
            let mut batch: Vec<usize> = vec![];
            for (gi, v) in vols.iter().enumerate() { for _ in 0..v[i].min(600) { batch.push(gi); } }
            // shuffle
            for j in (1..batch.len()).rev() { let k = rng.below(j as u64 + 1) as usize; batch.swap(j, k); }
            let total = batch.len() as u64;
            outg.count(if total == 0 { "interval_empty" } else if total <= target as u64 { "interval_at_or_below_target" } else { "interval_above_target" });
            if total == target as u64 { outg.count("interval_exactly_at_target"); }
            for gi in batch {
                let mut g = groups[gi].clone();
                if two_keys && rng.chance(1, 2) { g.reverse(); } // the sampler sorts the elements before lookup
                ops.push(COp::Observe(g, None));
            }
            ops.push(COp::End);
        }
        outg.add("observations", ops.iter().filter(|o| matches!(o, COp::Observe(..))).count() as u64);
        outg.add("groups", ngroups as u64);
        do_congress(&mut outg, target, &mut ops, &mut rng);
    }

    outd.finish("fixed-fraction decision (rate x 24-bit draw at / around the threshold, all power-of-two rates), rate_to_n_alpha / rate_to_n / SampledEmf::format_with_sample_rate (powers of two and neighbours, 1/k, decimal fractions, random mantissas down to 2^-63, saturation range, invalid rates) with 53-bit draws at / around alpha, and the FixedFractionSample<SampledEmf> pipeline's Counts. Non-trivial = draw within one step of the threshold resp. rate < 1; distinct by hash of the case");
    outg.finish("congressional sampler histories: 1-12 groups x 1-40 intervals, steady / bursty / intermittent / disappearing / late / noisy volumes around 0-4x target, element order permuted, draws chosen at the current rate's threshold. Non-trivial = some interval above target; distinct by hash of the case");
}
