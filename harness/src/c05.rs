//! C05 — shutdown drains, flushes and closes the stream; the writer thread terminates.
//! Suites: "-s" scheduled plans rich in clone/drop-clone/forget/drop-handle operations (model + predicate);
//! "-u" unscheduled: shutdown after a burst (family runs), the forget path on real threads (tag 3: the harness
//! waits for the stream's drop), and a global sink's AttachHandle (tag 4).
use super::c01::queue_core::*;
use super::c01::queue_family::{too_many_stuck, emit_stress, explore, small_plans, gen_plan, gen_shutdown_big, gen_stress, emit_scheduled, install_subscriber, replay_line, Focus, StressPlan};
use super::c01::queue_sched::attach;
use crate::common::{Ctx, Out, Rng};
use crate::sx::{self, Sx};
use metrique_writer::sink::{global_entry_sink, BackgroundQueueBuilder};
use metrique_writer::{AnyEntrySink, AttachGlobalEntrySink, EntrySink, GlobalEntrySink};
use std::sync::atomic::{AtomicU64, Ordering};
use std::sync::{Arc, Mutex};
use std::time::{Duration, Instant};

global_entry_sink! { C05Global }

/// tag 3: (3 cap kind threads per_thread interval_us)
fn emit_forget(out: &mut Out, case: &Sx) {
    attach(false);
    let (cap, kind, threads, per, interval_us) =
        (case.arg(0).num() as usize, case.arg(1).num() as u8, case.arg(2).num() as u64, case.arg(3).num() as u64, case.arg(4).num() as u64);
    let log: Log = Arc::new(Mutex::new(vec![]));
    let stream = RecStream { log: log.clone(), script: Script::default(), gate: None, flush_calls: 0, before_call: None };
    let rec = LogRecorder { log: log.clone(), counters: Default::default(), queue_len: Default::default() };
    let b = BackgroundQueueBuilder::new().capacity(cap).flush_interval(Duration::from_micros(interval_us))
        .metrics_recorder_local::<dyn metrics::Recorder, _>(rec);
    let dropped = Arc::new(AtomicU64::new(0));
    enum HH { T(metrique_writer::sink::BackgroundQueue<Ent>), B(metrique_writer::BoxEntrySink) }
    let (h, join) = if kind == 0 { let (q, j) = b.build::<Ent>(stream); (HH::T(q), j) } else { let (q, j) = b.build_boxed(stream); (HH::B(q), j) };
    join.forget();
    let h = Arc::new(h);
    std::thread::scope(|sc| {
        for t in 1..=threads {
            let h = h.clone();
            let dropped = dropped.clone();
            sc.spawn(move || {
                for i in 0..per {
                    let e = Ent { thread: t, seq: i, dropped: Some(dropped.clone()) };
                    match &*h { HH::T(q) => q.append(e), HH::B(b) => if kind == 1 { b.append_any(e) } else { EntrySink::<Ent>::append(b, e) } }
                }
            });
        }
    });
    drop(h); // the last queue handle
    // the thread notices within a flush interval or two; allow far more
    let limit = Instant::now() + Duration::from_millis(3000);
    let mut closed = false;
    while Instant::now() < limit {
        if log.lock().unwrap().last() == Some(&Ev::DropStream) { closed = true; break; }
        std::thread::sleep(Duration::from_micros(200));
    }
    let events = log.lock().unwrap().clone();
    let imp = Sx::L(vec![Sx::L(events.iter().map(|e| e.sx()).collect()), sx::boolean(closed), sx::n(dropped.load(Ordering::SeqCst))]);
    out.count("forget_runs");
    out.add("forget_entries", threads * per);
    if closed { out.count("forget_stream_dropped_in_time"); }
    out.case(case, &imp, true);
}

/// tag 4: (4 cap before after): a global sink backed by a queue; `before` appends, drop(AttachHandle), `after` appends
fn emit_attach(out: &mut Out, case: &Sx) {
    attach(false);
    let (cap, before, after) = (case.arg(0).num() as usize, case.arg(1).num() as u64, case.arg(2).num() as u64);
    let log: Log = Arc::new(Mutex::new(vec![]));
    let stream = RecStream { log: log.clone(), script: Script::default(), gate: None, flush_calls: 0, before_call: None };
    let rec = LogRecorder { log: log.clone(), counters: Default::default(), queue_len: Default::default() };
    let (q, j) = BackgroundQueueBuilder::new().capacity(cap).flush_interval(Duration::from_millis(20))
        .metrics_recorder_local::<dyn metrics::Recorder, _>(rec).build_boxed(stream);
    let handle = match crate::common::catch(|| C05Global::attach((q, j))) {
        Some(h) => h,
        None => {
            out.fail("attach panicked: the sink of an earlier case is still attached although its AttachHandle was dropped".into(), case);
            out.case(case, &Sx::L(vec![Sx::L(vec![])]), true);
            return;
        }
    };
    for i in 0..before {
        C05Global::append(Ent { thread: 1, seq: i, dropped: None });
    }
    let sink_clone = C05Global::sink(); // a clone that outlives the attachment
    let t0 = Instant::now();
    // odd `after`: the attach handle is dropped by a frame that is unwinding from a panic
    crate::common::drop_placed(handle, after % 2 == 1);
    let took = t0.elapsed();
    let at_return = log.lock().unwrap().clone();
    for i in 0..after {
        // detached: `append` would panic, try_append hands the entry back; the stale clone still accepts entries
        let _ = C05Global::try_append(Ent { thread: 1, seq: before + i, dropped: None });
        sink_clone.append_any(Ent { thread: 1, seq: before + after + i, dropped: None });
    }
    drop(sink_clone);
    std::thread::sleep(Duration::from_millis(2));
    let events = log.lock().unwrap().clone();
    if at_return.last() != Some(&Ev::DropStream) {
        out.fail("drop(AttachHandle) returned before the stream was dropped".into(), case);
    }
    if took > Duration::from_secs(10) {
        out.fail(format!("drop(AttachHandle) took {:?}", took), case);
    }
    let imp = Sx::L(vec![Sx::L(events.iter().map(|e| e.sx()).collect())]);
    out.count("attach_handle_runs");
    out.case(case, &imp, before > 0);
}

/// tag 5: (5 cap before racers held): like tag 4, but the AttachHandle is dropped while `racers` threads keep calling
/// `try_append`, and (held = 1) while one more thread is stopped *inside* `try_append` — at the queue's first
/// synchronisation point, i.e. under the global sink's read lock — until the drop has had time to start.
fn emit_attach_race(out: &mut Out, case: &Sx) {
    use metrique_writer::sink::background_verif as bv;
    attach(false);
    let (cap, before, racers, held) = (case.arg(0).num() as usize, case.arg(1).num() as u64, case.arg(2).num() as u64, case.arg(3).num() != 0);
    let log: Log = Arc::new(Mutex::new(vec![]));
    let stream = RecStream { log: log.clone(), script: Script::default(), gate: None, flush_calls: 0, before_call: None };
    let rec = LogRecorder { log: log.clone(), counters: Default::default(), queue_len: Default::default() };
    let (q, j) = BackgroundQueueBuilder::new().capacity(cap).flush_interval(Duration::from_millis(5))
        .metrics_recorder_local::<dyn metrics::Recorder, _>(rec).build_boxed(stream);
    let handle = match crate::common::catch(|| C05Global::attach((q, j))) {
        Some(h) => h,
        None => {
            out.fail("attach panicked: the sink of an earlier case is still attached although its AttachHandle was dropped".into(), case);
            out.case(case, &Sx::L(vec![Sx::L(vec![]), Sx::L(vec![])]), true);
            return;
        }
    };
    for i in 0..before {
        C05Global::append(Ent { thread: 1, seq: i, dropped: None });
    }
    // (arrived, released)
    let gate = Arc::new((Mutex::new((false, false)), std::sync::Condvar::new()));
    if held {
        let g = gate.clone();
        bv::install(Some(Arc::new(move |name: &'static str, _| {
            if name == "push.force" && std::thread::current().name() == Some("c05-held") {
                let (m, cv) = &*g;
                let mut st = m.lock().unwrap();
                st.0 = true;
                cv.notify_all();
                while !st.1 {
                    st = cv.wait(st).unwrap();
                }
            }
        })));
    }
    let stop = Arc::new(std::sync::atomic::AtomicBool::new(false));
    let mut at_return = vec![];
    let mut took = Duration::ZERO;
    std::thread::scope(|sc| {
        if held {
            std::thread::Builder::new().name("c05-held".into()).spawn_scoped(sc, || {
                let _ = C05Global::try_append(Ent { thread: 2, seq: 0, dropped: None });
            }).unwrap();
            let (m, cv) = &*gate;
            let mut st = m.lock().unwrap();
            let lim = Instant::now() + Duration::from_secs(5);
            while !st.0 && Instant::now() < lim {
                st = cv.wait_timeout(st, Duration::from_millis(50)).unwrap().0;
            }
        }
        for t in 0..racers {
            let stop = stop.clone();
            sc.spawn(move || {
                let mut i = 0;
                while !stop.load(Ordering::SeqCst) && i < 200_000 {
                    let _ = C05Global::try_append(Ent { thread: 3 + t, seq: i, dropped: None });
                    i += 1;
                    if i % 64 == 0 { std::thread::yield_now(); }
                }
            });
        }
        if racers > 0 {
            std::thread::sleep(Duration::from_micros(300));
        }
        let dropper = sc.spawn(|| {
            let t0 = Instant::now();
            drop(handle);
            (t0.elapsed(), log.lock().unwrap().clone())
        });
        if held {
            // give the drop time to start (on the code as it should be it now waits for the held appender)
            std::thread::sleep(Duration::from_millis(10));
            let (m, cv) = &*gate;
            m.lock().unwrap().1 = true;
            cv.notify_all();
        }
        let (t, l) = dropper.join().unwrap();
        took = t;
        at_return = l;
        stop.store(true, Ordering::SeqCst);
    });
    if held {
        bv::install(None);
    }
    std::thread::sleep(Duration::from_millis(2));
    let events = log.lock().unwrap().clone();
    if at_return.last() != Some(&Ev::DropStream) {
        out.fail("drop(AttachHandle) returned before the stream was dropped (appenders were inside try_append)".into(), case);
    }
    if took > Duration::from_secs(10) {
        out.fail(format!("drop(AttachHandle) took {:?}", took), case);
    }
    let imp = Sx::L(vec![Sx::L(events.iter().map(|e| e.sx()).collect()), Sx::L(at_return.iter().map(|e| e.sx()).collect())]);
    out.count("attach_handle_race_runs");
    if held { out.count("attach_handle_race_runs_with_held_appender"); }
    out.case(case, &imp, true);
}

pub fn run(ctx: &Ctx) {
    let mut s = Out::new(ctx, "-s");
    let mut u = Out::new(ctx, "-u");
    let mut rng = Rng::new(ctx.seed ^ 0xc05);
    if let Some(p) = &ctx.replay {
        for line in std::fs::read_to_string(p).unwrap().lines().filter(|l| l.starts_with('(')) {
            if line.starts_with("(0 ") {
                replay_line(&mut s, line, &mut rng);
            } else if line.starts_with("(3 ") {
                emit_forget(&mut u, &sx::parse(line));
            } else if line.starts_with("(4 ") {
                emit_attach(&mut u, &sx::parse(line));
            } else if line.starts_with("(5 ") {
                emit_attach_race(&mut u, &sx::parse(line));
            } else {
                replay_line(&mut u, line, &mut rng);
            }
        }
        s.finish("replay");
        u.finish("replay");
        return;
    }
    let t0 = Instant::now();
    let (bound, per_plan) = if ctx.tier_thorough { (3, 4000) } else { (2, 250) };
    for plan in small_plans(Focus::Shutdown) {
        explore(&mut s, &plan, bound, per_plan, &mut rng);
    }
    let (n_sched, n_stress, n_forget, n_attach, budget) = if ctx.tier_thorough { (40000, 40, 60, 40, 420.0) } else { (3000, 8, 10, 8, 50.0) };
    for phase in 0..2 {
        if phase == 1 {
            install_subscriber();
        }
        for i in 0..n_sched / 2 {
            if t0.elapsed().as_secs_f64() > budget * (0.45 + 0.4 * phase as f64) {
                s.notes.push(format!("phase {phase}: time budget reached after {i} scheduled cases"));
                break;
            }
            if too_many_stuck() {
                s.notes.push("scheduled cases stopped: threads repeatedly failed to reach their next synchronisation point".into());
                break;
            }
            let big = rng.chance(1, 100);
            let plan = gen_plan(&mut rng, Focus::Shutdown, big);
            let bias = *rng.pick(&[1, 2, 4, 4, 12, 30]);
            emit_scheduled(&mut s, &plan, &mut rng, None, bias);
        }
        for _ in 0..(if ctx.tier_thorough { 60 } else { 8 }) {
            if too_many_stuck() {
                break;
            }
            let plan = gen_shutdown_big(&mut rng);
            emit_scheduled(&mut s, &plan, &mut rng, None, 0);
        }
        for _ in 0..n_stress / 2 {
            let p: StressPlan = gen_stress(&mut rng, Focus::Shutdown, ctx.tier_thorough);
            emit_stress(&mut u, &p);
        }
        for _ in 0..n_forget / 2 {
            let threads = *rng.pick(&[1u64, 2, 4]);
            let per = *rng.pick(&[0u64, 1, 10, 100]);
            let cap = if rng.chance(1, 3) { *rng.pick(&[1u64, 3, 8]) } else { threads * per + 1 };
            let case = sx::tag(3, vec![sx::n(cap), sx::n(rng.below(3)), sx::n(threads), sx::n(per), sx::n(*rng.pick(&[1u64, 200, 2000, 20000]))]);
            emit_forget(&mut u, &case);
        }
        for _ in 0..n_attach / 2 {
            let before = *rng.pick(&[0u64, 1, 5, 50]);
            let case = sx::tag(4, vec![sx::n(*rng.pick(&[1u64, 4, 64])), sx::n(before), sx::n(rng.below(4))]);
            emit_attach(&mut u, &case);
        }
        for _ in 0..n_attach / 2 {
            let held = rng.chance(1, 2);
            let racers = if held { rng.below(3) } else { rng.range(1, 4) };
            let case = sx::tag(5, vec![sx::n(*rng.pick(&[4u64, 64, 1000])), sx::n(*rng.pick(&[0u64, 5, 50])), sx::n(racers), sx::boolean(held)]);
            emit_attach_race(&mut u, &case);
        }
    }
    s.finish("scheduled: plans with clone / drop-clone / forget / drop-handle operations at random places (drop of the join handle in the \
              middle of a script in 2/3 of the plans, so appends and flush requests race with and follow the shutdown), typed and boxed \
              queues, both clock regimes; non-trivial = at least 3 appends, writer and producers interleaved, and at least one of: overflow, \
              flush request, stream error, two producers");
    u.finish("unscheduled: shutdown through the join handle after a multi-threaded burst; the forget path on real threads with flush \
              intervals from 1 us to 20 ms (the harness waits up to 3 s for the stream's drop); a global sink's AttachHandle dropped \
              between appends");
}
