//! C01 — background queue: every appended entry reaches the stream exactly once, in order.
//! The queue family's shared machinery lives in queue_core.rs / queue_sched.rs / queue_family.rs.
#[path = "queue_core.rs"]
pub mod queue_core;
#[path = "queue_family.rs"]
pub mod queue_family;
#[path = "queue_rate.rs"]
pub mod queue_rate;
#[path = "queue_sched.rs"]
pub mod queue_sched;

use crate::common::Ctx;

pub fn run(ctx: &Ctx) {
    // "rate-limited": between the two phases of the family run (no tracing subscriber yet), suite "-r"
    let mut r = crate::common::Out::new(ctx, "-r");
    let mut late = None;
    let mut between = |rng: &mut crate::common::Rng| {
        if let Some(p) = &ctx.replay {
            for line in std::fs::read_to_string(p).unwrap().lines().filter(|l| l.starts_with("(7 ")) {
                queue_rate::replay_rate(&mut r, line);
            }
        } else {
            queue_rate::run_rate(&mut r, rng, ctx.tier_thorough);
            // a queue built now, used again once the family run has installed its tracing subscriber
            late = queue_rate::late_subscriber_prepare();
        }
    };
    queue_family::run_family_with(
        ctx,
        queue_family::Focus::Delivery,
        "scheduled: random plans (1-4 producer threads, typed/boxed handles, capacities 1-8/64 and >32, stream errors, flush requests, \
         shutdown or forget) under seeded random schedules with varying writer priority, both clock regimes, with and without a tracing \
         subscriber; non-trivial = at least 3 appends, writer and producers interleaved, and at least one of: overflow, flush request, \
         stream error, two producers; distinct by hash of the recorded label sequence",
        &mut between,
    );
    if let Some(ls) = late.take() {
        queue_rate::late_subscriber_check(&mut r, ls);
    }
    r.finish(
        "rate limiter: every operation sequence up to length 5 (quick) / 6 (thorough) over {clock +0.5 s, clock +1 s, failing entry, \
         good entry}, random monotone clocks with steps around the second boundary and idle periods up to 10^9 s, idle-then-burst, \
         the end of the u64 range; non-trivial = at least two failing entries",
    );
}
