//! C01 — background queue: every appended entry reaches the stream exactly once, in order.
//! The queue family's shared machinery lives in queue_core.rs / queue_sched.rs / queue_family.rs.
#[path = "queue_core.rs"]
pub mod queue_core;
#[path = "queue_family.rs"]
pub mod queue_family;
#[path = "queue_sched.rs"]
pub mod queue_sched;

use crate::common::Ctx;

pub fn run(ctx: &Ctx) {
    queue_family::run_family(
        ctx,
        queue_family::Focus::Delivery,
        "scheduled: random plans (1-4 producer threads, typed/boxed handles, capacities 1-8/64 and >32, stream errors, flush requests, \
         shutdown or forget) under seeded random schedules with varying writer priority, both clock regimes, with and without a tracing \
         subscriber; non-trivial = at least 3 appends, writer and producers interleaved, and at least one of: overflow, flush request, \
         stream error, two producers; distinct by hash of the recorded label sequence",
    );
}
