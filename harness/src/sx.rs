//! S-expressions over integers and byte strings: wire format shared with the Coq models.
//! Numbers are hexadecimal ("1f", "-a", "0"); byte strings are quoted hex.
use std::fmt;

#[derive(Clone, Debug, PartialEq, Eq, Hash)]
pub enum Sx {
    A(bool, u128), // (negative, magnitude)
    B(Vec<u8>),
    L(Vec<Sx>),
}

pub fn n(v: impl Into<u128>) -> Sx {
    Sx::A(false, v.into())
}
pub fn z(v: i128) -> Sx {
    Sx::A(v < 0, v.unsigned_abs())
}
pub fn b(v: impl AsRef<[u8]>) -> Sx {
    Sx::B(v.as_ref().to_vec())
}
pub fn l(v: Vec<Sx>) -> Sx {
    Sx::L(v)
}
pub fn boolean(v: bool) -> Sx {
    n(v as u8)
}
pub fn tag(t: u32, mut args: Vec<Sx>) -> Sx {
    let mut v = vec![n(t)];
    v.append(&mut args);
    Sx::L(v)
}
pub fn opt(v: Option<Sx>) -> Sx {
    match v {
        None => Sx::L(vec![]),
        Some(x) => Sx::L(vec![x]),
    }
}

impl fmt::Display for Sx {
    fn fmt(&self, f: &mut fmt::Formatter<'_>) -> fmt::Result {
        match self {
            Sx::A(neg, m) => {
                if *neg && *m != 0 {
                    write!(f, "-")?;
                }
                write!(f, "{:x}", m)
            }
            Sx::B(bytes) => {
                write!(f, "\"")?;
                for c in bytes {
                    write!(f, "{:02x}", c)?;
                }
                write!(f, "\"")
            }
            Sx::L(items) => {
                write!(f, "(")?;
                for (i, x) in items.iter().enumerate() {
                    if i > 0 {
                        write!(f, " ")?;
                    }
                    write!(f, "{}", x)?;
                }
                write!(f, ")")
            }
        }
    }
}

/// Parse one line (used for replay files).
pub fn parse(s: &str) -> Sx {
    fn item(c: &[u8], p: &mut usize) -> Sx {
        while *p < c.len() && (c[*p] == b' ' || c[*p] == b'\t') {
            *p += 1;
        }
        match c[*p] {
            b'(' => {
                *p += 1;
                let mut v = vec![];
                loop {
                    while *p < c.len() && c[*p] == b' ' {
                        *p += 1;
                    }
                    if c[*p] == b')' {
                        *p += 1;
                        return Sx::L(v);
                    }
                    v.push(item(c, p));
                }
            }
            b'"' => {
                *p += 1;
                let st = *p;
                while c[*p] != b'"' {
                    *p += 1;
                }
                let h = &c[st..*p];
                *p += 1;
                let hv = |x: u8| (x as char).to_digit(16).unwrap() as u8;
                Sx::B(h.chunks(2).map(|d| hv(d[0]) * 16 + hv(d[1])).collect())
            }
            _ => {
                let st = *p;
                while *p < c.len() && c[*p] != b' ' && c[*p] != b')' && c[*p] != b'(' {
                    *p += 1;
                }
                let t = std::str::from_utf8(&c[st..*p]).unwrap();
                let (neg, t) = match t.strip_prefix('-') {
                    Some(r) => (true, r),
                    None => (false, t),
                };
                Sx::A(neg, u128::from_str_radix(t, 16).unwrap())
            }
        }
    }
    let mut p = 0;
    item(s.trim().as_bytes(), &mut p)
}

impl Sx {
    pub fn list(&self) -> &[Sx] {
        match self {
            Sx::L(v) => v,
            _ => &[],
        }
    }
    pub fn num(&self) -> u128 {
        match self {
            Sx::A(_, m) => *m,
            _ => 0,
        }
    }
    pub fn bytes(&self) -> &[u8] {
        match self {
            Sx::B(v) => v,
            _ => &[],
        }
    }
    pub fn tag(&self) -> u128 {
        self.list().first().map(|x| x.num()).unwrap_or(u128::MAX)
    }
    pub fn arg(&self, i: usize) -> &Sx {
        static EMPTY: Sx = Sx::L(vec![]);
        self.list().get(i + 1).unwrap_or(&EMPTY)
    }
}
