//! Correspondence harness: runs the implementation built from the repository's working tree on
//! generated cases and writes, per property, cases.sx / impl.sx / meta.json for ./check to compare
//! with the Coq models.
#![allow(dead_code, clippy::all)]
mod common;
mod sx;
include!(env!("MV_REGISTRY"));

use common::Ctx;
use std::path::PathBuf;

fn main() {
    let args: Vec<String> = std::env::args().collect();
    if args.len() < 2 {
        eprintln!("usage: mv-harness <property> --tier quick|thorough --seed N --out DIR [--replay FILE]");
        std::process::exit(2);
    }
    let prop = args[1].clone();
    let mut ctx = Ctx { tier_thorough: false, seed: 1, out: PathBuf::from("."), replay: None, extra: vec![] };
    let mut i = 2;
    while i < args.len() {
        match args[i].as_str() {
            "--tier" => { ctx.tier_thorough = args[i + 1] == "thorough"; i += 2; }
            "--seed" => { ctx.seed = args[i + 1].parse().unwrap_or(1); i += 2; }
            "--out" => { ctx.out = PathBuf::from(&args[i + 1]); i += 2; }
            "--replay" => { ctx.replay = Some(PathBuf::from(&args[i + 1])); i += 2; }
            other => { ctx.extra.push(other.to_string()); i += 1; }
        }
    }
    if !dispatch(&prop, &ctx) {
        eprintln!("unknown property {prop}");
        std::process::exit(2);
    }
}
