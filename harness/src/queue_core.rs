//! Queue family (C01, C04, C05, C09): observation plumbing shared by the scheduled and the unscheduled runs —
//! the identifiable entry type, the scripted/recording/gateable `EntryIoStream`, the logging metrics
//! recorder and the event log.
use crate::sx::{self, Sx};
use metrique_writer::{Entry, EntryIoStream, EntryWriter, IoStreamError, ValidationError, Value, ValueWriter};
use std::borrow::Cow;
use std::collections::HashMap;
use std::sync::atomic::{AtomicBool, AtomicU64, Ordering};
use std::sync::{Arc, Condvar, Mutex};

/// Stream results, numbered as in the model's `sres`.
pub const R_OK: u8 = 0;
pub const R_VAL: u8 = 1;
pub const R_IO: u8 = 2;

/// Observable events, numbered as the model's `ev`.
#[derive(Clone, Debug, PartialEq, Eq)]
pub enum Ev {
    Next(u64, u64, u8), // thread, seq, result
    Report(u8),
    Flush(bool),
    DropStream,
    Wake(u64),
    Over,
    /// a `next` call whose entry is neither an `Ent` nor the in-band report (never expected)
    Alien,
}

impl Ev {
    pub fn sx(&self) -> Sx {
        match self {
            Ev::Next(t, n, r) => sx::tag(0, vec![sx::n(*t), sx::n(*n), sx::n(*r)]),
            Ev::Report(r) => sx::tag(1, vec![sx::n(*r)]),
            Ev::Flush(ok) => sx::tag(2, vec![sx::boolean(*ok)]),
            Ev::DropStream => sx::tag(3, vec![]),
            Ev::Wake(w) => sx::tag(4, vec![sx::n(*w)]),
            Ev::Over => sx::tag(5, vec![]),
            Ev::Alien => sx::tag(6, vec![]),
        }
    }
}

pub type Log = Arc<Mutex<Vec<Ev>>>;

/// The entry appended by the harness: identified by (producer thread, per-thread sequence number).
pub struct Ent {
    pub thread: u64,
    pub seq: u64,
    /// counts drops of entries (displaced / discarded entries are dropped, too)
    pub dropped: Option<Arc<AtomicU64>>,
}

impl Entry for Ent {
    fn write<'a>(&'a self, writer: &mut impl EntryWriter<'a>) {
        writer.value("t", &self.thread);
        writer.value("n", &self.seq);
    }
}

impl Drop for Ent {
    fn drop(&mut self) {
        if let Some(d) = &self.dropped {
            d.fetch_add(1, Ordering::SeqCst);
        }
    }
}

/// Recovers what an entry is by letting it write itself (works through `BoxEntry`, too).
#[derive(Default)]
struct Probe {
    t: Option<u64>,
    n: Option<u64>,
    report: bool,
    other: bool,
}

struct ProbeValue<'p>(&'p mut Option<u64>, &'p mut bool);
impl ValueWriter for ProbeValue<'_> {
    fn string(self, _value: &str) {
        *self.1 = true;
    }
    fn metric<'a>(
        self,
        distribution: impl IntoIterator<Item = metrique_writer::Observation>,
        _unit: metrique_writer::Unit,
        _dimensions: impl IntoIterator<Item = (&'a str, &'a str)>,
        _flags: metrique_writer::MetricFlags<'_>,
    ) {
        match distribution.into_iter().next() {
            Some(metrique_writer::Observation::Unsigned(v)) => *self.0 = Some(v),
            _ => *self.1 = true,
        }
    }
    fn error(self, _error: ValidationError) {
        *self.1 = true;
    }
}

impl<'a> EntryWriter<'a> for Probe {
    fn timestamp(&mut self, _timestamp: std::time::SystemTime) {
        self.other = true;
    }
    fn value(&mut self, name: impl Into<Cow<'a, str>>, value: &(impl Value + ?Sized)) {
        let name = name.into();
        match &name[..] {
            "t" => value.write(ProbeValue(&mut self.t, &mut self.other)),
            "n" => value.write(ProbeValue(&mut self.n, &mut self.other)),
            "MetriqueValidationError" => self.report = true,
            _ => self.other = true,
        }
    }
    fn config(&mut self, _config: &'a dyn metrique_writer::EntryConfig) {}
}

/// A gate the writer thread can be held at (used by the unscheduled runs to stall the writer).
#[derive(Default)]
pub struct Gate {
    pub closed: AtomicBool,
    pub m: Mutex<()>,
    pub cv: Condvar,
    /// number of `next` calls currently waiting at the gate
    pub waiting: AtomicU64,
}

impl Gate {
    pub fn close(&self) {
        self.closed.store(true, Ordering::SeqCst);
    }
    pub fn open(&self) {
        let _g = self.m.lock().unwrap();
        self.closed.store(false, Ordering::SeqCst);
        self.cv.notify_all();
    }
    fn pass(&self) {
        if !self.closed.load(Ordering::SeqCst) {
            return;
        }
        let mut g = self.m.lock().unwrap();
        self.waiting.fetch_add(1, Ordering::SeqCst);
        while self.closed.load(Ordering::SeqCst) {
            g = self.cv.wait(g).unwrap();
        }
        self.waiting.fetch_sub(1, Ordering::SeqCst);
    }
}

/// How the stream answers: per-entry results, the result of an in-band report, per-call flush results.
#[derive(Clone, Default)]
pub struct Script {
    /// result for entry (thread, seq); missing = Ok
    pub results: HashMap<(u64, u64), u8>,
    pub report_result: u8,
    /// indices (0-based, counted over all flush calls) of the flush calls that fail
    pub failing_flushes: Vec<u64>,
}

/// Recording, scripted, gateable stream.
pub struct RecStream {
    pub log: Log,
    pub script: Script,
    pub gate: Option<Arc<Gate>>,
    pub flush_calls: u64,
    /// called at the start of every `next` / `flush` / drop: lets the scheduled runs observe, in log order,
    /// flush requests that completed *before* this stream call (a wake-up must never precede its flush)
    pub before_call: Option<Arc<dyn Fn() + Send + Sync>>,
}

/// The kinds of I/O error a stream can answer with: the queue must treat them all alike (an error for that entry
/// only — in particular no retry for the "transient" ones, `EntryIoStream::next` is not idempotent).
const IO_KINDS: [std::io::ErrorKind; 8] = [
    std::io::ErrorKind::Other,
    std::io::ErrorKind::Interrupted,
    std::io::ErrorKind::WouldBlock,
    std::io::ErrorKind::TimedOut,
    std::io::ErrorKind::BrokenPipe,
    std::io::ErrorKind::WriteZero,
    std::io::ErrorKind::UnexpectedEof,
    std::io::ErrorKind::OutOfMemory,
];

fn to_result(r: u8, salt: u64) -> Result<(), IoStreamError> {
    match r {
        R_OK => Ok(()),
        R_VAL => Err(IoStreamError::Validation(ValidationError::invalid("scripted validation error"))),
        _ => Err(IoStreamError::Io(std::io::Error::new(IO_KINDS[(salt % 8) as usize], "scripted io error"))),
    }
}

impl EntryIoStream for RecStream {
    fn next(&mut self, entry: &impl Entry) -> Result<(), IoStreamError> {
        if let Some(g) = &self.gate {
            g.pass();
        }
        if let Some(h) = &self.before_call {
            h();
        }
        let mut p = Probe::default();
        entry.write(&mut p);
        let salt = p.t.unwrap_or(0).wrapping_mul(5).wrapping_add(p.n.unwrap_or(3));
        let (ev, r) = match (p.t, p.n, p.report, p.other) {
            (Some(t), Some(n), false, false) => {
                let r = *self.script.results.get(&(t, n)).unwrap_or(&R_OK);
                (Ev::Next(t, n, r), r)
            }
            (None, None, true, false) => (Ev::Report(self.script.report_result), self.script.report_result),
            _ => (Ev::Alien, R_OK),
        };
        self.log.lock().unwrap().push(ev);
        to_result(r, salt)
    }

    fn flush(&mut self) -> std::io::Result<()> {
        if let Some(h) = &self.before_call {
            h();
        }
        let k = self.flush_calls;
        self.flush_calls += 1;
        let ok = !self.script.failing_flushes.contains(&k);
        self.log.lock().unwrap().push(Ev::Flush(ok));
        if ok { Ok(()) } else { Err(std::io::Error::other("scripted flush error")) }
    }
}

impl Drop for RecStream {
    fn drop(&mut self) {
        if let Some(h) = &self.before_call {
            h();
        }
        self.log.lock().unwrap().push(Ev::DropStream);
    }
}

/// metrics.rs recorder that puts the overflow counter's increments into the event log (in order with the
/// stream's events) and keeps the other queue metrics for inspection.
pub struct LogRecorder {
    pub log: Log,
    pub counters: Arc<Mutex<HashMap<String, u64>>>,
    pub queue_len: Arc<Mutex<Vec<u64>>>,
}

struct LogCounter {
    name: String,
    log: Log,
    counters: Arc<Mutex<HashMap<String, u64>>>,
}
impl metrics::CounterFn for LogCounter {
    fn increment(&self, value: u64) {
        *self.counters.lock().unwrap().entry(self.name.clone()).or_insert(0) += value;
        if self.name == "metrique_queue_overflows" {
            let mut l = self.log.lock().unwrap();
            for _ in 0..value {
                l.push(Ev::Over);
            }
        }
    }
    fn absolute(&self, _value: u64) {}
}
struct LenHist(Arc<Mutex<Vec<u64>>>);
impl metrics::HistogramFn for LenHist {
    fn record(&self, value: f64) {
        self.0.lock().unwrap().push(value as u64);
    }
}

impl metrics::Recorder for LogRecorder {
    fn describe_counter(&self, _: metrics::KeyName, _: Option<metrics::Unit>, _: metrics::SharedString) {}
    fn describe_gauge(&self, _: metrics::KeyName, _: Option<metrics::Unit>, _: metrics::SharedString) {}
    fn describe_histogram(&self, _: metrics::KeyName, _: Option<metrics::Unit>, _: metrics::SharedString) {}
    fn register_counter(&self, key: &metrics::Key, _: &metrics::Metadata<'_>) -> metrics::Counter {
        metrics::Counter::from_arc(Arc::new(LogCounter {
            name: key.name().to_string(),
            log: self.log.clone(),
            counters: self.counters.clone(),
        }))
    }
    fn register_gauge(&self, _: &metrics::Key, _: &metrics::Metadata<'_>) -> metrics::Gauge {
        metrics::Gauge::noop()
    }
    fn register_histogram(&self, key: &metrics::Key, _: &metrics::Metadata<'_>) -> metrics::Histogram {
        if key.name() == "metrique_queue_len" {
            metrics::Histogram::from_arc(Arc::new(LenHist(self.queue_len.clone())))
        } else {
            metrics::Histogram::noop()
        }
    }
}

/// A tracing subscriber that is not `NoSubscriber` and records nothing: with it installed as the global
/// default, `report_validation_error` takes its `tracing::error!` branch and never writes in band.
pub struct QuietSubscriber;
impl tracing::Subscriber for QuietSubscriber {
    fn enabled(&self, _: &tracing::Metadata<'_>) -> bool {
        false
    }
    fn new_span(&self, _: &tracing::span::Attributes<'_>) -> tracing::span::Id {
        tracing::span::Id::from_u64(1)
    }
    fn record(&self, _: &tracing::span::Id, _: &tracing::span::Record<'_>) {}
    fn record_follows_from(&self, _: &tracing::span::Id, _: &tracing::span::Id) {}
    fn event(&self, _: &tracing::Event<'_>) {}
    fn enter(&self, _: &tracing::span::Id) {}
    fn exit(&self, _: &tracing::span::Id) {}
}

/// Poll a future once with a no-op waker.
pub fn poll_once<F: std::future::Future + Unpin>(f: &mut F) -> bool {
    let w = std::task::Waker::noop();
    let mut cx = std::task::Context::from_waker(w);
    std::pin::Pin::new(f).poll(&mut cx).is_ready()
}
