//! C08 — validation rejects exactly the malformed entries and never alters valid output.
use crate::c02::emf::*;
use crate::common::{Ctx, Out, Rng};
use crate::sx::{self, Sx};

#[derive(Clone, Copy, Debug, PartialEq)]
enum Defect { DupStrStr, DupStrMetric, DupMetricMetric, SecondTimestamp, EmptyName, AwsName, MetricUnderDim, MissingDim, DimsNoSplit, EntryDimsEmpty, EntryDimsTwice, EntryDimsLate }
const DEFECTS: &[Defect] = &[Defect::DupStrStr, Defect::DupStrMetric, Defect::DupMetricMetric, Defect::SecondTimestamp, Defect::EmptyName, Defect::AwsName, Defect::MetricUnderDim, Defect::MissingDim, Defect::DimsNoSplit, Defect::EntryDimsEmpty, Defect::EntryDimsTwice, Defect::EntryDimsLate];

fn metric1() -> VCall { VCall::Metric(vec![Obs::U(1)], UnitS::None, vec![], Flag::None) }

/// Inject one defect at (roughly) position `pos`; returns false when the entry offers no place for it.
/// dimension names the entry itself declares through an EntryDimensions config
fn entry_declared_dims(items: &[Item]) -> Vec<String> {
    items.iter().flat_map(|i| match i { Item::Config(CItem::EntryDims(d)) => d.concat(), _ => vec![] }).collect()
}
fn inject(items: &mut Vec<Item>, cfg: &Config, d: Defect, pos: usize, rng: &mut Rng) -> bool {
    // never split the (Unroutable config, MetriqueValidationError value) pair
    let at = |items: &Vec<Item>| { let p = std::cmp::min(pos, items.len()); if p > 0 && matches!(items[p - 1], Item::Config(CItem::Unroutable)) { p - 1 } else { p } };
    let strings: Vec<String> = items.iter().filter_map(|i| if let Item::Value(n, VCall::Str(_)) = i { Some(n.clone()) } else { None }).collect();
    let gmetrics: Vec<String> = items.iter().filter_map(|i| if let Item::Value(n, VCall::Metric(_, _, d, _)) = i { if d.is_empty() { Some(n.clone()) } else { None } } else { None }).collect();
    let unroutable = items.iter().any(|i| matches!(i, Item::Config(CItem::Unroutable)));
    match d {
        Defect::DupStrStr => { if strings.is_empty() { return false; } let n = rng.pick(&strings).clone(); let p = at(items); items.insert(p, Item::Value(n, VCall::Str("again".into()))); }
        Defect::DupStrMetric => { if strings.is_empty() || unroutable { return false; } let n = rng.pick(&strings).clone(); let p = at(items); items.insert(p, Item::Value(n, if rng.chance(1, 2) { metric1() } else { VCall::Metric(vec![], UnitS::None, vec![], Flag::None) })); }
        Defect::DupMetricMetric => { if gmetrics.is_empty() || unroutable { return false; } let n = rng.pick(&gmetrics).clone(); let p = at(items); items.insert(p, Item::Value(n, if rng.chance(1, 2) { metric1() } else { VCall::Metric(vec![Obs::F(f64::NAN.to_bits())], UnitS::None, vec![], Flag::None) })); }
        Defect::SecondTimestamp => { if !has_timestamp(items) { items.insert(0, Item::Timestamp(1)); } let p = at(items); items.insert(p, Item::Timestamp(2_000_000)); }
        Defect::EmptyName => { let p = at(items); items.insert(p, Item::Value("".into(), if rng.chance(1, 3) { VCall::Nothing } else { VCall::Str("v".into()) })); }
        Defect::AwsName => { let p = at(items); items.insert(p, Item::Value("_aws".into(), if rng.chance(1, 2) { metric1() } else { VCall::Str("v".into()) })); }
        Defect::MetricUnderDim => {
            let mut dims = cfg.default_dims.concat();
            dims.extend(entry_declared_dims(items));
            if dims.is_empty() || unroutable { return false; }
            let n = rng.pick(&dims).clone();
            items.retain(|i| !matches!(i, Item::Value(x, _) if *x == n));
            let p = at(items); items.insert(p, Item::Value(n, metric1()));
        }
        Defect::MissingDim => {
            let mut dims = cfg.default_dims.concat();
            dims.extend(entry_declared_dims(items));
            if dims.is_empty() || unroutable { return false; }
            let n = rng.pick(&dims).clone();
            items.retain(|i| !matches!(i, Item::Value(x, _) if *x == n));
        }
        Defect::DimsNoSplit => {
            if cfg.allow_ignored || items.iter().any(|i| matches!(i, Item::Config(CItem::Split))) { return false; }
            let p = at(items); items.insert(p, Item::Value(format!("nosplit{}", rng.below(1000)), VCall::Metric(vec![Obs::U(1)], UnitS::None, vec![("kk".into(), "vv".into())], Flag::None)));
        }
        Defect::EntryDimsEmpty => { if items.iter().any(|i| matches!(i, Item::Config(CItem::EntryDims(_)))) { return false; } let p = at(items); items.insert(p, Item::Config(CItem::EntryDims(vec![]))); }
        Defect::EntryDimsTwice => {
            let first = items.iter().position(|i| matches!(i, Item::Config(CItem::EntryDims(d)) if !d.is_empty()));
            match first { Some(i) => { let p = items.len(); let _ = i; items.insert(p, Item::Config(CItem::EntryDims(vec![vec![]]))); } None => { items.insert(0, Item::Config(CItem::EntryDims(vec![vec![]]))); let p = items.len(); items.insert(p, Item::Config(CItem::EntryDims(vec![vec![]]))); } }
        }
        Defect::EntryDimsLate => {
            if cfg.allow_ignored || items.iter().any(|i| matches!(i, Item::Config(CItem::EntryDims(_)))) { return false; }
            if !items.iter().any(|i| matches!(i, Item::Config(CItem::Split))) { items.insert(0, Item::Config(CItem::Split)); }
            items.push(Item::Value(format!("late{}", rng.below(1000)), VCall::Metric(vec![Obs::U(1)], UnitS::None, vec![("kk".into(), "vv".into())], Flag::None)));
            items.push(Item::Config(CItem::EntryDims(vec![vec![]])));
        }
    }
    true
}

fn expected_on(cfg: &Config) -> bool {
    match effective_ctor(cfg) { Ctor::AllValidations => true, Ctor::Builder | Ctor::BuilderSkip(false) => cfg!(debug_assertions), _ => false }
}

/// Does some record of this entry get a per-metric dimension key that is also another member of that record,
/// is repeated, or is a reserved/empty name?  (Known finding: such keys are never validated.)
fn dim_key_collision(items: &[Item]) -> bool {
    let strings: Vec<&String> = items.iter().filter_map(|i| if let Item::Value(n, VCall::Str(_)) = i { Some(n) } else { None }).collect();
    for it in items {
        if let Item::Value(_, VCall::Metric(_, _, dims, _)) = it {
            if dims.is_empty() { continue; }
            let mut key: Vec<(String, String)> = dims.clone(); key.sort();
            for (i, (k, _)) in key.iter().enumerate() {
                if k.is_empty() || k == "_aws" || strings.contains(&k) || key[..i].iter().any(|(k2, _)| k2 == k) { return true; }
                // a metric routed to the same record under the key's name
                for it2 in items { if let Item::Value(n2, VCall::Metric(_, _, d2, _)) = it2 { let mut k2 = d2.clone(); k2.sort(); if k2 == key && n2 == k { return true; } } }
            }
        }
    }
    false
}

fn no_value_errors(items: &[Item]) -> bool { !items.iter().any(|i| matches!(i, Item::Value(_, VCall::Error(_)))) }

fn run_one(out: &mut Out, cfg: &Config, call: &Call, injected: Option<Defect>) {
    let case = Case { cfg: cfg.clone(), calls: vec![call.clone()], sorted: true };
    let (case_sx, imp_sx, raw) = exec_case(&case, out);
    let (res, bytes) = &raw[0];
    if let Some(d) = injected {
        out.count(&format!("defect_{d:?}"));
        if expected_on(cfg) && !matches!(res, Res::Validation(_)) {
            out.fail(format!("validations are enabled ({:?}) but an entry with defect {d:?} was not rejected (result {res:?})", effective_ctor(cfg)), &case_sx);
        }
    } else if no_value_errors(&call.items) {
        out.count("valid_entry");
        // accepted with validations on, and byte-identical (as a set of lines) with validations off
        if !matches!(res, Res::Ok) { out.fail(format!("a valid entry was rejected: {res:?}"), &case_sx); }
        if !expected_on(cfg) { out.count("valid_entry_validations_not_promised"); }
        let off = Config { ctor: Ctor::NoValidations, ..cfg.clone() };
        let mut f = build(&off);
        let (r2, b2) = exec_call(&mut f, call);
        if enc_res(res, bytes, true) != enc_res(&r2, &b2, true) { out.fail("output with validations enabled differs from output with validations disabled".into(), &case_sx); }
    }
    if matches!(res, Res::Validation(_)) && !bytes.is_empty() { out.fail("rejected entry produced output".into(), &case_sx); }
    // records with duplicate members: decided by the Coq-side predicate (c08_nodup_pred); the known finding is
    // identified by this tag appended to the case line's companion note
    let tag = if dim_key_collision(&call.items) { "dim-key-collision" } else { "no-dim-key-collision" };
    out.count(tag);
    let tagged = Sx::L(vec![case_sx.list()[0].clone(), case_sx.list()[1].clone(), case_sx.list()[2].clone(), sx::b(tag)]);
    out.case(&tagged, &imp_sx, injected.is_some());
}

pub fn run(ctx: &Ctx) {
    crate::common::quiet_panics();
    let mut out = Out::new(ctx, "");
    if let Some(p) = &ctx.replay {
        for line in std::fs::read_to_string(p).unwrap().lines().filter(|l| l.starts_with('(')) {
            let c = dec_case(&sx::parse(line));
            run_one(&mut out, &c.cfg, &c.calls[0], None);
        }
        out.finish("replay");
        return;
    }
    let mut rng = Rng::new(ctx.seed);
    let n = if ctx.tier_thorough { 6000 } else { 500 };
    for _ in 0..n {
        let mut cfg = gen_config(&mut rng);
        cfg.ctor = *rng.pick(&[Ctor::AllValidations, Ctor::AllValidations, Ctor::Builder, Ctor::BuilderSkip(false)]);
        let mut items = gen_items(&mut rng, &cfg, &GenOpts { defects: 0, allow_scripts: false, allow_split: true });
        if !has_timestamp(&items) { items.insert(0, Item::Timestamp(rng.below(3_000_000_000_000_000_000) as i128)); }
        let rate = if rng.chance(1, 5) { gen_rate(&mut rng) } else { None };
        run_one(&mut out, &cfg, &Call { rate_exp: rate, items: items.clone(), script: vec![] }, None);
        // every defect at a few positions (every position in the thorough tier), singly
        for &d in DEFECTS {
            let positions: Vec<usize> = if ctx.tier_thorough { (0..=items.len()).collect() } else { vec![0, items.len() / 2, items.len()] };
            for pos in positions {
                let mut it = items.clone();
                if inject(&mut it, &cfg, d, pos, &mut rng) { run_one(&mut out, &cfg, &Call { rate_exp: rate, items: it, script: vec![] }, Some(d)); }
            }
        }
        // combined injections
        for _ in 0..2 {
            let mut it = items.clone();
            let d1 = *rng.pick(DEFECTS); let d2 = *rng.pick(DEFECTS);
            let p1 = rng.below(it.len() as u64 + 1) as usize;
            if inject(&mut it, &cfg, d1, p1, &mut rng) { let p2 = rng.below(it.len() as u64 + 1) as usize; inject(&mut it, &cfg, d2, p2, &mut rng); out.count("combined"); run_one(&mut out, &cfg, &Call { rate_exp: rate, items: it, script: vec![] }, Some(d1)); }
        }
        // the same valid entry with validations off via the other documented ways
        for ctor in [Ctor::NoValidations, Ctor::BuilderSkip(true)] {
            let c2 = Config { ctor, ..cfg.clone() };
            let case = Case { cfg: c2, calls: vec![Call { rate_exp: rate, items: items.clone(), script: vec![] }], sorted: true };
            let (case_sx, imp_sx, _) = exec_case(&case, &mut out);
            let tag = if dim_key_collision(&items) { "dim-key-collision" } else { "no-dim-key-collision" };
            let tagged = Sx::L(vec![case_sx.list()[0].clone(), case_sx.list()[1].clone(), case_sx.list()[2].clone(), sx::b(tag)]);
            out.count("validations_off");
            out.case(&tagged, &imp_sx, false);
        }
    }
    // many per-metric dimension sets in one entry (one record each), the same metric name in all of them — valid — and
    // then once more under the k-th set — a duplicate, whatever k is (the bookkeeping of "which records already have
    // this name" must not have a width)
    for &nsets in if ctx.tier_thorough { &[1usize, 2, 31, 32, 33, 62, 63, 64, 65, 66, 100, 127, 128, 129, 200][..] } else { &[2usize, 33, 63, 64, 65, 130][..] } {
        let mut cfg = gen_config(&mut rng);
        cfg.ctor = *rng.pick(&[Ctor::AllValidations, Ctor::AllValidations, Ctor::Builder]);
        cfg.allow_ignored = false;
        let mut base = vec![Item::Timestamp(1_700_000_000_000_000_000), Item::Config(CItem::Split)];
        for d in cfg.default_dims.concat() {
            if !base.iter().any(|i| matches!(i, Item::Value(n, _) if *n == d)) { base.push(Item::Value(d, VCall::Str("dimvalue".into()))); }
        }
        base.push(Item::Value("Global".into(), metric1()));
        for i in 1..=nsets {
            base.push(Item::Value("Latency".into(), VCall::Metric(vec![Obs::U(i as u64)], UnitS::None, vec![("shard".into(), format!("s{i}"))], Flag::None)));
        }
        out.count("many_dimension_sets");
        run_one(&mut out, &cfg, &Call { rate_exp: None, items: base.clone(), script: vec![] }, None);
        let mut ks = vec![1, nsets / 2 + 1, nsets.saturating_sub(1).max(1), nsets];
        ks.dedup();
        for k in ks {
            let mut it = base.clone();
            it.push(Item::Value("Latency".into(), VCall::Metric(vec![Obs::U(9999)], UnitS::None, vec![("shard".into(), format!("s{k}"))], Flag::None)));
            if rng.chance(1, 2) { it.push(Item::Value("After".into(), metric1())); }
            out.count("many_dimension_sets_duplicate");
            run_one(&mut out, &cfg, &Call { rate_exp: None, items: it, script: vec![] }, Some(Defect::DupMetricMetric));
        }
    }
    // sequences on one validating formatter: a rejected entry (often a split one with per-metric dimensions) followed by
    // valid entries that reuse its names and dimension sets — rejection must leave no trace, valid output must stay
    // byte-identical to the non-validating formatter and free of duplicate members
    let nseq = if ctx.tier_thorough { 4000 } else { 400 };
    for _ in 0..nseq {
        let mut cfg = gen_config(&mut rng);
        cfg.ctor = *rng.pick(&[Ctor::AllValidations, Ctor::Builder, Ctor::BuilderSkip(false)]);
        let mut base = gen_items(&mut rng, &cfg, &GenOpts { defects: 0, allow_scripts: false, allow_split: true });
        if !has_timestamp(&base) { base.insert(0, Item::Timestamp(9_000_000)); }
        if rng.chance(2, 3) && !base.iter().any(|i| matches!(i, Item::Config(CItem::Split))) && !cfg.allow_ignored {
            base.insert(1, Item::Config(CItem::Split));
            base.push(Item::Value(format!("Lat{}", rng.below(3)), VCall::Metric(vec![Obs::U(rng.below(9))], UnitS::None, vec![("dk".into(), "dv".into())], Flag::None)));
        }
        let mut calls = vec![];
        let ncalls = rng.range(2, 4);
        for _ in 0..ncalls {
            let mut it = base.clone();
            if rng.chance(1, 2) { let d = *rng.pick(DEFECTS); let pos = rng.below(it.len() as u64 + 1) as usize; inject(&mut it, &cfg, d, pos, &mut rng); }
            calls.push(Call { rate_exp: None, items: it, script: vec![] });
        }
        calls.push(Call { rate_exp: None, items: base.clone(), script: vec![] });
        let case = Case { cfg: cfg.clone(), calls: calls.clone(), sorted: true };
        let (case_sx, imp_sx, raw) = exec_case(&case, &mut out);
        // every call of the sequence must equal the same call on fresh formatters, validating and (when accepted) not
        for (call, (res, bytes)) in calls.iter().zip(&raw) {
            let mut f = build(&cfg);
            let (r1, b1) = exec_call(&mut f, call);
            if enc_res(res, bytes, true) != enc_res(&r1, &b1, true) { out.fail("a call on a reused validating formatter differs from the same entry on a fresh one (a rejected entry left a trace)".into(), &case_sx); }
            if matches!(res, Res::Ok) && no_value_errors(&call.items) {
                let mut f2 = build(&Config { ctor: Ctor::NoValidations, ..cfg.clone() });
                let (r2, b2) = exec_call(&mut f2, call);
                if enc_res(res, bytes, true) != enc_res(&r2, &b2, true) { out.fail("accepted output differs from the output with validations disabled".into(), &case_sx); }
            }
            if matches!(res, Res::Validation(_)) && !bytes.is_empty() { out.fail("rejected entry produced output".into(), &case_sx); }
        }
        let tag = if calls.iter().any(|c| dim_key_collision(&c.items)) { "dim-key-collision" } else { "no-dim-key-collision" };
        let tagged = Sx::L(vec![case_sx.list()[0].clone(), case_sx.list()[1].clone(), case_sx.list()[2].clone(), sx::b(tag)]);
        out.count("rejected_then_valid_sequence");
        out.case(&tagged, &imp_sx, true);
    }
    out.finish("valid entries from the EMF generator under every dimension-set configuration and mode, each with single injections of the 12 defect kinds at several (thorough: every) positions and combined injections; formatted with validations enabled through each documented constructor of this build profile and disabled; non-trivial = a defect-injected entry; distinct by hash");
}
