//! C06 — append-on-drop keep-alive: histories of create/drop/mutate actions run on the real
//! `AppendAndCloseOnDrop` / `FlushGuard` / `ForceFlushGuard` / handle clones against a counting sink that
//! snapshots the set of live objects at the instant of `append`.
use crate::common::{Ctx, Out, Rng};
use crate::sx::{self, Sx};
use metrique::unit_of_work::metrics;
use metrique::writer::{Entry, EntrySink};
use metrique::{AppendAndCloseOnDrop, AppendAndCloseOnDropHandle, CloseValue, FlushGuard, ForceFlushGuard, RootEntry};
use metrique_writer::sink::FlushWait;
use metrique_writer::test_util::to_test_entry;
use std::sync::atomic::{AtomicUsize, Ordering::SeqCst};
use std::sync::{Arc, Mutex};

/// A field whose content is the list of mutations applied to it (also through `&`, for handle clones).
#[derive(Default)]
pub struct LogField(pub Mutex<Vec<u64>>);
impl LogField {
    pub fn push(&self, v: u64) {
        self.0.lock().unwrap().push(v);
    }
    pub fn push_mut(&mut self, v: u64) {
        self.0.get_mut().unwrap().push(v);
    }
}
pub fn render_log(v: &[u64]) -> String {
    v.iter().map(|x| format!("{x:x}")).collect::<Vec<_>>().join(",")
}
pub fn parse_log(s: &str) -> Vec<u64> {
    s.split(',').filter(|t| !t.is_empty()).map(|t| u64::from_str_radix(t, 16).unwrap()).collect()
}
impl CloseValue for LogField {
    type Closed = String;
    fn close(self) -> String {
        render_log(&self.0.into_inner().unwrap())
    }
}

#[metrics]
#[derive(Default)]
pub struct E {
    log: LogField,
}

/// Which objects are alive (their drop has not begun). Updated by the harness immediately before it
/// starts a drop and immediately after a creation.
#[derive(Default)]
pub struct Tracker {
    pub owners: AtomicUsize,
    pub fgs: AtomicUsize,
    pub forced: AtomicUsize,
}

#[derive(Clone, Debug, PartialEq)]
pub struct Record {
    pub owners: usize,
    pub fgs: usize,
    pub forced: usize,
    pub log: Vec<u64>,
}
impl Record {
    pub fn enc(&self) -> Sx {
        Sx::L(vec![sx::n(self.owners as u64), sx::n(self.fgs as u64), sx::n(self.forced as u64),
                   Sx::L(self.log.iter().map(|&v| sx::n(v)).collect())])
    }
}

#[derive(Clone, Default)]
pub struct Sink {
    pub tracker: Arc<Tracker>,
    pub records: Arc<Mutex<Vec<Record>>>,
}
impl<T: Entry> EntrySink<T> for Sink {
    fn append(&self, entry: T) {
        let te = to_test_entry(&entry);
        let log = te.values.get("log").map(|s| parse_log(s)).unwrap_or_default();
        let r = Record {
            owners: self.tracker.owners.load(SeqCst),
            fgs: self.tracker.fgs.load(SeqCst),
            forced: self.tracker.forced.load(SeqCst),
            log,
        };
        self.records.lock().unwrap().push(r);
    }
    fn flush_async(&self) -> FlushWait {
        FlushWait::ready()
    }
}
impl Sink {
    pub fn count(&self) -> usize {
        self.records.lock().unwrap().len()
    }
}

type Owner = AppendAndCloseOnDrop<E, Sink>;
type Handle = AppendAndCloseOnDropHandle<E, Sink>;

pub enum OwnerRef {
    Direct(Owner),
    Handle(Handle),
}

#[derive(Clone, Copy, Debug, PartialEq)]
pub enum Op {
    Mutate(u64),
    MakeHandle,
    CloneHandle(usize),
    NewFlush,
    NewForce,
    DropOwner(usize),
    DropFlush(usize),
    DropForce(usize),
}
pub fn enc_op(o: &Op) -> Sx {
    match *o {
        Op::Mutate(v) => sx::tag(0, vec![sx::n(v)]),
        Op::MakeHandle => sx::tag(1, vec![]),
        Op::CloneHandle(k) => sx::tag(2, vec![sx::n(k as u64)]),
        Op::NewFlush => sx::tag(3, vec![]),
        Op::NewForce => sx::tag(4, vec![]),
        Op::DropOwner(k) => sx::tag(5, vec![sx::n(k as u64)]),
        Op::DropFlush(k) => sx::tag(6, vec![sx::n(k as u64)]),
        Op::DropForce(k) => sx::tag(7, vec![sx::n(k as u64)]),
    }
}
pub fn dec_op(x: &Sx) -> Op {
    let k = x.arg(0).num() as usize;
    match x.tag() {
        0 => Op::Mutate(x.arg(0).num() as u64),
        1 => Op::MakeHandle,
        2 => Op::CloneHandle(k),
        3 => Op::NewFlush,
        4 => Op::NewForce,
        5 => Op::DropOwner(k),
        6 => Op::DropFlush(k),
        _ => Op::DropForce(k),
    }
}

/// The real objects of one history.
pub struct World {
    pub owners: Vec<OwnerRef>,
    pub fgs: Vec<FlushGuard>,
    pub ffs: Vec<ForceFlushGuard>,
    pub sink: Sink,
}
impl World {
    pub fn new() -> World {
        let sink = Sink::default();
        sink.tracker.owners.store(1, SeqCst);
        let owner = E::default().append_on_drop(sink.clone());
        World { owners: vec![OwnerRef::Direct(owner)], fgs: vec![], ffs: vec![], sink }
    }
    /// Applies one action; actions that are not enabled (no such object) are skipped, as in the model.
    pub fn apply(&mut self, op: Op) {
        let t = self.sink.tracker.clone();
        match op {
            Op::Mutate(v) => match self.owners.first_mut() {
                Some(OwnerRef::Direct(o)) => {
                    // DerefMut through Parent
                    let e: &mut E = &mut *o;
                    e.log.push_mut(v);
                }
                Some(OwnerRef::Handle(_)) => {
                    // any live clone, through `&`
                    let k = (v as usize) % self.owners.len();
                    if let OwnerRef::Handle(h) = &self.owners[k] {
                        h.log.push(v);
                    }
                }
                None => {}
            },
            Op::MakeHandle => {
                if self.owners.len() == 1 && matches!(self.owners[0], OwnerRef::Direct(_)) {
                    if let Some(OwnerRef::Direct(o)) = self.owners.pop() {
                        self.owners.push(OwnerRef::Handle(o.handle()));
                    }
                }
            }
            Op::CloneHandle(k) => {
                if !self.owners.is_empty() {
                    let k = k % self.owners.len();
                    if let OwnerRef::Handle(h) = &self.owners[k] {
                        let c = h.clone();
                        self.owners.push(OwnerRef::Handle(c));
                        t.owners.fetch_add(1, SeqCst);
                    }
                }
            }
            Op::NewFlush => {
                if let Some(o) = self.owners.last() {
                    // a method of the owner itself: a handle derefs to the entry only
                    if let OwnerRef::Direct(o) = o {
                        self.fgs.push(o.flush_guard());
                        t.fgs.fetch_add(1, SeqCst);
                    }
                }
            }
            Op::NewForce => {
                if let Some(o) = self.owners.last() {
                    if let OwnerRef::Direct(o) = o {
                        self.ffs.push(o.force_flush_guard());
                    }
                }
            }
            Op::DropOwner(k) => {
                if !self.owners.is_empty() {
                    let k = k % self.owners.len();
                    let o = self.owners.remove(k);
                    t.owners.fetch_sub(1, SeqCst);
                    drop(o);
                }
            }
            Op::DropFlush(k) => {
                if !self.fgs.is_empty() {
                    let k = k % self.fgs.len();
                    let g = self.fgs.remove(k);
                    t.fgs.fetch_sub(1, SeqCst);
                    drop(g);
                }
            }
            Op::DropForce(k) => {
                if !self.ffs.is_empty() {
                    let k = k % self.ffs.len();
                    let g = self.ffs.remove(k);
                    t.forced.fetch_add(1, SeqCst);
                    drop(g);
                }
            }
        }
    }
}

fn exec_seq(ops: &[Op]) -> Sx {
    let mut w = World::new();
    let mut obs = vec![];
    for &op in ops {
        w.apply(op);
        obs.push(sx::n(w.sink.count() as u64));
    }
    let recs: Vec<Sx> = w.sink.records.lock().unwrap().iter().map(|r| r.enc()).collect();
    // what is still alive is dropped now; appends made here are after the observation
    drop(w);
    Sx::L(vec![Sx::L(obs), Sx::L(recs)])
}

pub fn exec(case: &Sx) -> (Sx, bool) {
    match case.tag() {
        _ => {
            let ops: Vec<Op> = case.arg(0).list().iter().map(dec_op).collect();
            let guards = ops.iter().any(|o| matches!(o, Op::NewFlush | Op::NewForce));
            let owner_dropped = ops.iter().any(|o| matches!(o, Op::DropOwner(_)));
            (exec_seq(&ops), guards && owner_dropped)
        }
    }
}

struct Caps {
    clones: usize,
    fgs: usize,
    ffs: usize,
    muts: usize,
    depth: usize,
}

#[derive(Clone, Default)]
struct Shape {
    owners: usize,
    handle: bool,
    fgs: usize,
    ffs: usize,
    clones_made: usize,
    fgs_made: usize,
    ffs_made: usize,
    muts: usize,
}

/// Every complete history (all objects dropped at the end) within the caps; which of several live objects of
/// one kind is dropped is enumerated too.
fn enumerate(caps: &Caps, sh: &Shape, pre: &mut Vec<Op>, f: &mut dyn FnMut(&[Op])) {
    if sh.owners == 0 && sh.fgs == 0 && sh.ffs == 0 {
        f(pre);
        return;
    }
    if pre.len() >= caps.depth {
        return;
    }
    let mut next: Vec<(Op, Shape)> = vec![];
    if sh.owners > 0 {
        if sh.muts < caps.muts {
            let mut s = sh.clone();
            s.muts += 1;
            next.push((Op::Mutate(10 + sh.muts as u64), s));
        }
        if !sh.handle && sh.clones_made < caps.clones {
            let mut s = sh.clone();
            s.handle = true;
            next.push((Op::MakeHandle, s));
        }
        if sh.handle && sh.clones_made < caps.clones {
            let mut s = sh.clone();
            s.owners += 1;
            s.clones_made += 1;
            next.push((Op::CloneHandle(0), s));
        }
        if !sh.handle && sh.fgs_made < caps.fgs {
            let mut s = sh.clone();
            s.fgs += 1;
            s.fgs_made += 1;
            next.push((Op::NewFlush, s));
        }
        if !sh.handle && sh.ffs_made < caps.ffs {
            let mut s = sh.clone();
            s.ffs += 1;
            s.ffs_made += 1;
            next.push((Op::NewForce, s));
        }
        for k in 0..sh.owners {
            let mut s = sh.clone();
            s.owners -= 1;
            next.push((Op::DropOwner(k), s));
        }
    }
    for k in 0..sh.fgs {
        let mut s = sh.clone();
        s.fgs -= 1;
        next.push((Op::DropFlush(k), s));
    }
    for k in 0..sh.ffs {
        let mut s = sh.clone();
        s.ffs -= 1;
        next.push((Op::DropForce(k), s));
    }
    for (op, s) in next {
        pre.push(op);
        enumerate(caps, &s, pre, f);
        pre.pop();
    }
}

fn random_history(rng: &mut Rng, len: usize) -> Vec<Op> {
    let mut sh = Shape { owners: 1, ..Default::default() };
    let mut ops = vec![];
    let want_handle = rng.chance(1, 2);
    for i in 0..len {
        let mut cand: Vec<Op> = vec![];
        if sh.owners > 0 {
            cand.push(Op::Mutate(rng.range(0, 1 << 20)));
            if !sh.handle {
                cand.push(Op::NewFlush);
                cand.push(Op::NewFlush);
                cand.push(Op::NewForce);
            }
            if want_handle && !sh.handle && (i * 4 > len || rng.chance(1, 8)) {
                cand.push(Op::MakeHandle);
                cand.push(Op::MakeHandle);
            }
            if sh.handle {
                cand.push(Op::CloneHandle(rng.below(8) as usize));
            }
            // keep the owner for a while so that guards accumulate
            if i * 3 > len || rng.chance(1, 6) {
                cand.push(Op::DropOwner(rng.below(8) as usize));
            }
        }
        if sh.fgs > 0 {
            cand.push(Op::DropFlush(rng.below(8) as usize));
        }
        if sh.ffs > 0 {
            cand.push(Op::DropForce(rng.below(8) as usize));
        }
        if cand.is_empty() {
            break;
        }
        let op = *rng.pick(&cand);
        match op {
            Op::MakeHandle => sh.handle = true,
            Op::CloneHandle(_) => sh.owners += 1,
            Op::NewFlush => sh.fgs += 1,
            Op::NewForce => sh.ffs += 1,
            Op::DropOwner(_) => sh.owners -= 1,
            Op::DropFlush(_) => sh.fgs -= 1,
            Op::DropForce(_) => sh.ffs -= 1,
            Op::Mutate(_) => {}
        }
        ops.push(op);
    }
    // finish: drop what is left in a random order
    loop {
        let mut cand: Vec<Op> = vec![];
        if sh.owners > 0 { cand.push(Op::DropOwner(rng.below(8) as usize)); }
        if sh.fgs > 0 { cand.push(Op::DropFlush(rng.below(8) as usize)); }
        if sh.ffs > 0 { cand.push(Op::DropForce(rng.below(8) as usize)); }
        if cand.is_empty() { break; }
        let op = *rng.pick(&cand);
        match op {
            Op::DropOwner(_) => sh.owners -= 1,
            Op::DropFlush(_) => sh.fgs -= 1,
            _ => sh.ffs -= 1,
        }
        ops.push(op);
    }
    ops
}

fn count_ops(out: &mut Out, ops: &[Op]) {
    for o in ops {
        out.count(match o {
            Op::Mutate(_) => "op_mutate",
            Op::MakeHandle => "op_make_handle",
            Op::CloneHandle(_) => "op_clone_handle",
            Op::NewFlush => "op_new_flush_guard",
            Op::NewForce => "op_new_force_guard",
            Op::DropOwner(_) => "op_drop_owner_or_handle",
            Op::DropFlush(_) => "op_drop_flush_guard",
            Op::DropForce(_) => "op_drop_force_guard",
        });
    }
}

pub fn run(ctx: &Ctx) {
    let mut out = Out::new(ctx, "");
    let emit = |out: &mut Out, case: Sx| {
        let (imp, nt) = exec(&case);
        out.case(&case, &imp, nt);
    };
    if let Some(p) = &ctx.replay {
        for line in std::fs::read_to_string(p).unwrap().lines().filter(|l| l.starts_with('(')) {
            emit(&mut out, sx::parse(line));
        }
        out.finish("replay");
        return;
    }
    // exhaustive: every complete history within the caps
    let caps = if ctx.tier_thorough {
        Caps { clones: 2, fgs: 3, ffs: 2, muts: 1, depth: 14 }
    } else {
        Caps { clones: 1, fgs: 2, ffs: 1, muts: 1, depth: 10 }
    };
    let mut all: Vec<Vec<Op>> = vec![];
    enumerate(&caps, &Shape { owners: 1, ..Default::default() }, &mut vec![], &mut |ops| all.push(ops.to_vec()));
    for ops in &all {
        out.count(&format!("exhaustive_len_{:02}", ops.len()));
        emit(&mut out, sx::tag(0, vec![Sx::L(ops.iter().map(enc_op).collect())]));
    }
    out.add("exhaustive_histories", all.len() as u64);
    let mut rng = Rng::new(ctx.seed);
    let nrand = if ctx.tier_thorough { 20000 } else { 3000 };
    for _ in 0..nrand {
        let len = rng.range(4, if ctx.tier_thorough { 60 } else { 30 }) as usize;
        let ops = random_history(&mut rng, len);
        count_ops(&mut out, &ops);
        out.count("random_histories");
        emit(&mut out, sx::tag(0, vec![Sx::L(ops.iter().map(enc_op).collect())]));
    }
    out.finish("sequential: every complete create/drop/mutate history within the tier's caps (which live object is dropped enumerated too) plus random longer ones; non-trivial = at least one guard created and an owner dropped; distinct by hash of the case");
}
