//! C06 — append-on-drop keep-alive: histories of create/drop/mutate actions run on the real
//! `AppendAndCloseOnDrop` / `FlushGuard` / `ForceFlushGuard` / handle clones against a counting sink that
//! snapshots the set of live objects at the instant of `append`.
use crate::common::{Ctx, Out, Rng};
use crate::sx::{self, Sx};
use metrique::unit_of_work::metrics;
use metrique::writer::{Entry, EntrySink};
use metrique::{AppendAndCloseOnDrop, AppendAndCloseOnDropHandle, CloseValue, FlushGuard, ForceFlushGuard};
use metrique_writer::sink::FlushWait;
use metrique_writer::test_util::to_test_entry;
use std::sync::atomic::{AtomicUsize, Ordering::SeqCst};
use std::cell::RefCell;
use std::sync::{Arc, Condvar, Mutex};

/// A field whose content is the list of mutations applied to it (also through `&`, for handle clones).
#[derive(Default)]
pub struct LogField(pub Mutex<Vec<u64>>);
impl LogField {
    pub fn push(&self, v: u64) {
        self.0.lock().unwrap().push(v);
    }
    pub fn push_mut(&mut self, v: u64) {
        self.0.get_mut().unwrap().push(v);
    }
}
pub fn render_log(v: &[u64]) -> String {
    v.iter().map(|x| format!("{x:x}")).collect::<Vec<_>>().join(",")
}
pub fn parse_log(s: &str) -> Vec<u64> {
    s.split(',').filter(|t| !t.is_empty()).map(|t| u64::from_str_radix(t, 16).unwrap()).collect()
}
impl CloseValue for LogField {
    type Closed = String;
    fn close(self) -> String {
        render_log(&self.0.into_inner().unwrap())
    }
}

#[metrics]
#[derive(Default)]
pub struct E {
    log: LogField,
}

/// Which objects are alive (their drop has not begun). Updated by the harness immediately before it
/// starts a drop and immediately after a creation.
#[derive(Default)]
pub struct Tracker {
    pub owners: AtomicUsize,
    pub fgs: AtomicUsize,
    pub forced: AtomicUsize,
}

#[derive(Clone, Debug, PartialEq)]
pub struct Record {
    pub owners: usize,
    pub fgs: usize,
    pub forced: usize,
    pub log: Vec<u64>,
}
impl Record {
    pub fn enc(&self) -> Sx {
        Sx::L(vec![sx::n(self.owners as u64), sx::n(self.fgs as u64), sx::n(self.forced as u64),
                   Sx::L(self.log.iter().map(|&v| sx::n(v)).collect())])
    }
}

#[derive(Clone, Default)]
pub struct Sink {
    pub tracker: Arc<Tracker>,
    pub records: Arc<Mutex<Vec<Record>>>,
    /// for scheduled runs: the scheduler step during which each record was appended
    pub seqs: Arc<Mutex<Vec<usize>>>,
}
impl<T: Entry> EntrySink<T> for Sink {
    fn append(&self, entry: T) {
        let te = to_test_entry(&entry);
        let log = te.values.get("log").map(|s| parse_log(s)).unwrap_or_default();
        let r = Record {
            owners: self.tracker.owners.load(SeqCst),
            fgs: self.tracker.fgs.load(SeqCst),
            forced: self.tracker.forced.load(SeqCst),
            log,
        };
        self.records.lock().unwrap().push(r);
        self.seqs.lock().unwrap().push(current_step());
    }
    fn flush_async(&self) -> FlushWait {
        FlushWait::ready()
    }
}
impl Sink {
    pub fn count(&self) -> usize {
        self.records.lock().unwrap().len()
    }
}

type Owner = AppendAndCloseOnDrop<E, Sink>;
type Handle = AppendAndCloseOnDropHandle<E, Sink>;

pub enum OwnerRef {
    Direct(Owner),
    Handle(Handle),
}

#[derive(Clone, Copy, Debug, PartialEq)]
pub enum Op {
    Mutate(u64),
    MakeHandle,
    CloneHandle(usize),
    NewFlush,
    NewForce,
    DropOwner(usize),
    DropFlush(usize),
    DropForce(usize),
}
pub fn enc_op(o: &Op) -> Sx {
    match *o {
        Op::Mutate(v) => sx::tag(0, vec![sx::n(v)]),
        Op::MakeHandle => sx::tag(1, vec![]),
        Op::CloneHandle(k) => sx::tag(2, vec![sx::n(k as u64)]),
        Op::NewFlush => sx::tag(3, vec![]),
        Op::NewForce => sx::tag(4, vec![]),
        Op::DropOwner(k) => sx::tag(5, vec![sx::n(k as u64)]),
        Op::DropFlush(k) => sx::tag(6, vec![sx::n(k as u64)]),
        Op::DropForce(k) => sx::tag(7, vec![sx::n(k as u64)]),
    }
}
pub fn dec_op(x: &Sx) -> Op {
    let k = x.arg(0).num() as usize;
    match x.tag() {
        0 => Op::Mutate(x.arg(0).num() as u64),
        1 => Op::MakeHandle,
        2 => Op::CloneHandle(k),
        3 => Op::NewFlush,
        4 => Op::NewForce,
        5 => Op::DropOwner(k),
        6 => Op::DropFlush(k),
        _ => Op::DropForce(k),
    }
}

/// Drops `x` — when `unwinding`, from a frame that is unwinding from a panic (as when the task that owns the entry or
/// a guard fails).  A drop is a drop: the property quantifies over every placement of it, the model's answer is the same.
pub fn drop_placed<T>(x: T, unwinding: bool) {
    if !unwinding {
        drop(x);
        return;
    }
    struct Marker;
    let r = std::panic::catch_unwind(std::panic::AssertUnwindSafe(move || {
        let _held = x;
        std::panic::resume_unwind(Box::new(Marker));
    }));
    match r {
        Err(p) if p.is::<Marker>() => {}
        Err(p) => std::panic::resume_unwind(p),
        Ok(()) => {}
    }
}

/// A carrier entry: `cargo` is dropped while the carrier is being closed, i.e. inside the carrier's own emission.
#[metrics]
#[derive(Default)]
pub struct Carrier {
    n: u64,
    #[metrics(ignore)]
    cargo: Mutex<Option<Box<dyn std::any::Any + Send>>>,
}
#[derive(Clone, Default)]
struct NullSink;
impl<T: Entry> EntrySink<T> for NullSink {
    fn append(&self, _entry: T) {}
    fn flush_async(&self) -> FlushWait {
        FlushWait::ready()
    }
}
/// Drops `x` from inside the destructor of ANOTHER entry (a unit of work that owns a guard of a sub-operation's
/// entry): the carrier is emitted by its owner's drop (mode 1), by its last flush guard after the owner is gone
/// (mode 2) or by a force-flush guard while a flush guard is outstanding (mode 3).  A drop is a drop: the history of
/// the observed entry, and so the model's answer, is the same.
pub fn drop_nested<T: Send + 'static>(x: T, mode: u8) {
    let owner = Carrier { n: 1, cargo: Mutex::new(Some(Box::new(x))) }.append_on_drop(NullSink);
    match mode {
        1 => drop(owner),
        2 => {
            let fg = owner.flush_guard();
            drop(owner);
            drop(fg);
        }
        _ => {
            let fg = owner.flush_guard();
            let ff = owner.force_flush_guard();
            drop(owner);
            drop(ff);
            drop(fg);
        }
    }
}

/// The real objects of one history.
pub struct World {
    pub owners: Vec<OwnerRef>,
    pub fgs: Vec<FlushGuard>,
    pub ffs: Vec<ForceFlushGuard>,
    pub sink: Sink,
    /// the mutations that were really applied (an owner was alive), in order of application
    pub applied_muts: Vec<u64>,
    /// every drop of this history happens during an unwind
    pub unwinding: bool,
    /// every drop of this history happens inside another entry's destructor (0 = no; 1-3 = `drop_nested` mode)
    pub nested: u8,
}
impl World {
    pub fn new() -> World {
        let sink = Sink::default();
        sink.tracker.owners.store(1, SeqCst);
        let owner = E::default().append_on_drop(sink.clone());
        World { owners: vec![OwnerRef::Direct(owner)], fgs: vec![], ffs: vec![], sink, applied_muts: vec![], unwinding: false, nested: 0 }
    }
    /// Applies one action; actions that are not enabled (no such object) are skipped, as in the model.
    pub fn apply(&mut self, op: Op) {
        let t = self.sink.tracker.clone();
        match op {
            Op::Mutate(v) => match self.owners.first_mut() {
                Some(OwnerRef::Direct(o)) => {
                    // DerefMut through Parent
                    let e: &mut E = &mut *o;
                    e.log.push_mut(v);
                    self.applied_muts.push(v);
                }
                Some(OwnerRef::Handle(_)) => {
                    // any live clone, through `&`
                    let k = (v as usize) % self.owners.len();
                    if let OwnerRef::Handle(h) = &self.owners[k] {
                        h.log.push(v);
                        self.applied_muts.push(v);
                    }
                }
                None => {}
            },
            Op::MakeHandle => {
                if self.owners.len() == 1 && matches!(self.owners[0], OwnerRef::Direct(_)) {
                    if let Some(OwnerRef::Direct(o)) = self.owners.pop() {
                        self.owners.push(OwnerRef::Handle(o.handle()));
                    }
                }
            }
            Op::CloneHandle(k) => {
                if !self.owners.is_empty() {
                    let k = k % self.owners.len();
                    if let OwnerRef::Handle(h) = &self.owners[k] {
                        let c = h.clone();
                        self.owners.push(OwnerRef::Handle(c));
                        t.owners.fetch_add(1, SeqCst);
                    }
                }
            }
            Op::NewFlush => {
                if let Some(o) = self.owners.last() {
                    // a method of the owner itself: a handle derefs to the entry only
                    if let OwnerRef::Direct(o) = o {
                        self.fgs.push(o.flush_guard());
                        t.fgs.fetch_add(1, SeqCst);
                    }
                }
            }
            Op::NewForce => {
                if let Some(o) = self.owners.last() {
                    if let OwnerRef::Direct(o) = o {
                        self.ffs.push(o.force_flush_guard());
                    }
                }
            }
            Op::DropOwner(k) => {
                if !self.owners.is_empty() {
                    let k0 = k;
                    let k = k % self.owners.len();
                    let o = self.owners.remove(k);
                    t.owners.fetch_sub(1, SeqCst);
                    match o {
                        // every other time through metrique::instrument::Instrumented::emit ("emit the metrics and
                        // return the value"), which must be the same as dropping the owner
                        OwnerRef::Direct(o) if k0 % 2 == 1 && !self.unwinding && self.nested == 0 => {
                            let v = metrique::instrument::Instrumented::from_parts(k0, o).emit();
                            assert_eq!(v, k0);
                        }
                        OwnerRef::Direct(o) if self.nested != 0 => drop_nested(o, self.nested),
                        OwnerRef::Handle(h) if self.nested != 0 => drop_nested(h, self.nested),
                        o => drop_placed(o, self.unwinding),
                    }
                }
            }
            Op::DropFlush(k) => {
                if !self.fgs.is_empty() {
                    let k = k % self.fgs.len();
                    let g = self.fgs.remove(k);
                    t.fgs.fetch_sub(1, SeqCst);
                    if self.nested != 0 { drop_nested(g, self.nested) } else { drop_placed(g, self.unwinding) }
                }
            }
            Op::DropForce(k) => {
                if !self.ffs.is_empty() {
                    let k = k % self.ffs.len();
                    let g = self.ffs.remove(k);
                    t.forced.fetch_add(1, SeqCst);
                    if self.nested != 0 { drop_nested(g, self.nested) } else { drop_placed(g, self.unwinding) }
                }
            }
        }
    }
}

fn exec_seq(ops: &[Op], placement: u64) -> Sx {
    progress();
    let mut w = World::new();
    w.unwinding = placement == 1;
    w.nested = if placement >= 2 { (placement - 1) as u8 } else { 0 };
    let mut obs = vec![];
    for &op in ops {
        w.apply(op);
        obs.push(sx::n(w.sink.count() as u64));
    }
    let recs: Vec<Sx> = w.sink.records.lock().unwrap().iter().map(|r| r.enc()).collect();
    // what is still alive is dropped now; appends made here are after the observation
    drop(w);
    Sx::L(vec![Sx::L(obs), Sx::L(recs)])
}


// ------------------------------------------------------------------------------------------------
// Cooperative scheduler over the sync points (cfg(metrique_verif) hooks in DropAll::drop and
// SlotGuard::drop, plus one at the beginning of every action): exactly one logical thread runs at a
// time, from one sync point to the next, chosen by the schedule. The execution is therefore a
// sequentially consistent interleaving of the blocks between sync points = a label list of the model.

#[derive(Clone, Copy, PartialEq, Debug)]
pub enum Status {
    Running,
    Parked(&'static str),
    Done,
}
struct SchedSt {
    status: Vec<Status>,
    turn: Option<usize>,
    /// the controller gave up (a thread did not come back within the watchdog time): nobody parks any more
    aborted: bool,
}
pub struct Sched {
    st: Mutex<SchedSt>,
    cv: Condvar,
    step: AtomicUsize,
}
/// The index of the scheduler step (grant) the calling logical thread is executing; 0 outside the scheduler.
pub fn current_step() -> usize {
    CUR.with(|c| c.borrow().as_ref().map(|(s, _)| s.step.load(SeqCst)).unwrap_or(0))
}
thread_local! {
    static CUR: RefCell<Option<(Arc<Sched>, usize)>> = const { RefCell::new(None) };
}
// Yield-only mode for free-running stress: a sync point becomes a seeded number of `yield_now`s.
thread_local! {
    static PERTURB: RefCell<Option<Rng>> = const { RefCell::new(None) };
}
thread_local! {
    static IN_CLOSE: std::cell::Cell<bool> = const { std::cell::Cell::new(false) };
    static NO_PARK: std::cell::Cell<bool> = const { std::cell::Cell::new(false) };
}
/// While a thread holds the harness's world lock it must not park (a destructor running there - which the
/// unmodified code never does - would otherwise stall every other thread).
pub fn set_no_park(b: bool) {
    NO_PARK.with(|c| c.set(b));
}
/// While a thread closes an entry, the home guards of never-opened slots are dropped by `Slot::close`; their
/// "slotguard.sent" hook is not a scheduling point (nothing observable happens there).
pub fn set_in_close(b: bool) {
    IN_CLOSE.with(|c| c.set(b));
}
static PROGRESS: std::sync::atomic::AtomicU64 = std::sync::atomic::AtomicU64::new(0);
/// Called once per executed case; the watchdog ends the process when nothing has progressed for two minutes
/// (a deadlock of the code under test in a free-running run would otherwise hang the check).
pub fn progress() {
    PROGRESS.fetch_add(1, SeqCst);
}
pub fn start_watchdog() {
    std::thread::spawn(|| {
        let mut last = PROGRESS.load(SeqCst);
        let mut idle = 0u32;
        loop {
            std::thread::sleep(std::time::Duration::from_secs(5));
            let now = PROGRESS.load(SeqCst);
            if now == last {
                idle += 1;
                if idle >= 24 {
                    eprintln!("harness watchdog: no case completed for 120 s (deadlock in the code under test?)");
                    std::process::exit(3);
                }
            } else {
                idle = 0;
                last = now;
            }
        }
    });
}
thread_local! {
    /// (arrived, released): set on the thread that the lock probe holds at "dropall.taken"
    static PROBE_HOLD: std::cell::RefCell<Option<Arc<(Mutex<(bool, bool)>, Condvar)>>> = std::cell::RefCell::new(None);
}

/// The lock probe (case tag 3, `(3 nflush nforce)`): the owner is dropped while `nflush` flush guards are alive; thread A
/// drops one force-flush guard and is held right after it took the keep-alive closure (before it closes and appends the
/// entry); thread B drops another force-flush guard meanwhile.  "Appended at the moment ... some force-flush guard has
/// been dropped, never later": when B's drop returns, the entry must have been appended — in the code as it is B waits
/// for A on the guard's mutex.  Returns Ok when B either was still waiting after the probe time or returned with the
/// entry appended.
fn exec_lock_probe(nflush: usize, nforce: usize) -> Result<(), String> {
    progress();
    install_controller();
    let mut w = World::new();
    for _ in 0..nflush { w.apply(Op::NewFlush); }
    for _ in 0..nforce.max(2) { w.apply(Op::NewForce); }
    w.apply(Op::Mutate(7));
    w.apply(Op::DropOwner(0));
    let sink = w.sink.clone();
    if sink.count() != 0 {
        return Err("the entry was appended while flush guards were alive and no force-flush guard had been dropped".into());
    }
    let fa = w.ffs.remove(0);
    let fb = w.ffs.remove(0);
    let gate = Arc::new((Mutex::new((false, false)), Condvar::new()));
    let g2 = gate.clone();
    let a = std::thread::spawn(move || {
        PROBE_HOLD.with(|p| *p.borrow_mut() = Some(g2));
        drop(fa);
        PROBE_HOLD.with(|p| *p.borrow_mut() = None);
    });
    {
        let (m, cv) = &*gate;
        let mut st = m.lock().unwrap();
        let lim = std::time::Instant::now() + std::time::Duration::from_secs(5);
        while !st.0 && std::time::Instant::now() < lim {
            st = cv.wait_timeout(st, std::time::Duration::from_millis(20)).unwrap().0;
        }
        if !st.0 {
            st.1 = true;
            cv.notify_all();
            drop(st);
            let _ = a.join();
            return Err("the first force-flush guard's drop never took the keep-alive closure".into());
        }
    }
    let s2 = sink.clone();
    let done = Arc::new((Mutex::new(None::<usize>), Condvar::new()));
    let d2 = done.clone();
    let b = std::thread::spawn(move || {
        drop(fb);
        let c = s2.count();
        *d2.0.lock().unwrap() = Some(c);
        d2.1.notify_all();
    });
    // give B time to run into the mutex (or through it)
    let seen = {
        let (m, cv) = &*done;
        let mut st = m.lock().unwrap();
        let lim = std::time::Instant::now() + std::time::Duration::from_millis(60);
        while st.is_none() && std::time::Instant::now() < lim {
            st = cv.wait_timeout(st, std::time::Duration::from_millis(10)).unwrap().0;
        }
        *st
    };
    {
        let (m, cv) = &*gate;
        m.lock().unwrap().1 = true;
        cv.notify_all();
    }
    let _ = a.join();
    let _ = b.join();
    let at_return = done.0.lock().unwrap().unwrap_or(usize::MAX);
    drop(w);
    let total = sink.count();
    if let Some(c) = seen {
        if c == 0 {
            return Err("a force-flush guard's drop returned (owner gone) while another thread was still between taking the keep-alive closure and appending: the entry was not appended yet".into());
        }
    }
    if at_return != 1 { return Err(format!("{at_return} entries had been appended when the second force-flush guard's drop returned")); }
    if total != 1 { return Err(format!("{total} entries appended in the end")); }
    Ok(())
}

/// An entry that owns a force-flush guard of ITSELF (case `(3 nflush 0 2)`): owner gone, flush guards outstanding, an
/// outside force-flush guard is dropped.  The entry must be appended (once) and the drop must return.
#[metrics]
#[derive(Default)]
pub struct SelfOwner {
    log: LogField,
    #[metrics(ignore)]
    own: Mutex<Option<ForceFlushGuard>>,
}
fn exec_self_owned_probe(nflush: usize) -> Result<(), String> {
    progress();
    let sink = Sink::default();
    let owner = SelfOwner::default().append_on_drop(sink.clone());
    let fgs: Vec<FlushGuard> = (0..nflush.max(1)).map(|_| owner.flush_guard()).collect();
    let outside = owner.force_flush_guard();
    *owner.own.lock().unwrap() = Some(owner.force_flush_guard());
    drop(owner);
    let (tx, rx) = std::sync::mpsc::channel();
    let s2 = sink.clone();
    std::thread::spawn(move || {
        drop(outside);
        let _ = tx.send(s2.count());
    });
    let r = rx.recv_timeout(std::time::Duration::from_millis(1500));
    drop(fgs);
    match r {
        Err(_) => Err("self-owned force-flush guard: the drop of an outside force-flush guard never returned and the entry was never appended (DropAll::drop runs the entry's destructor while holding the guard mutex; the entry's own DropAll, dropped in there, locks it again)".into()),
        Ok(1) => Ok(()),
        Ok(n) => Err(format!("self-owned force-flush guard: {n} appends when the outside force-flush guard's drop returned")),
    }
}

/// The second lock probe (case `(3 nflush nforce 1)`): while one thread is in the middle of Debug-formatting a flush
/// guard of the entry into a writer that stalls, another thread drops a force-flush guard (owner gone).  Formatting a
/// guard must not be able to make a force flush a no-op: when the drop returns the entry must have been appended.
fn exec_debug_probe(nflush: usize) -> Result<(), String> {
    use std::fmt::Write as _;
    progress();
    install_controller();
    let mut w = World::new();
    for _ in 0..nflush.max(1) { w.apply(Op::NewFlush); }
    w.apply(Op::NewForce);
    w.apply(Op::Mutate(9));
    w.apply(Op::DropOwner(0));
    let sink = w.sink.clone();
    let fg = w.fgs.remove(0);
    let ff = w.ffs.remove(0);
    struct Stall(Arc<(Mutex<(bool, bool)>, Condvar)>);
    impl std::fmt::Write for Stall {
        fn write_str(&mut self, _s: &str) -> std::fmt::Result {
            let (m, cv) = &*self.0;
            let mut st = m.lock().unwrap();
            st.0 = true;
            cv.notify_all();
            while !st.1 {
                st = cv.wait(st).unwrap();
            }
            Ok(())
        }
    }
    let gate = Arc::new((Mutex::new((false, false)), Condvar::new()));
    let g2 = gate.clone();
    let a = std::thread::spawn(move || {
        let mut out = Stall(g2);
        let _ = write!(out, "{:?}", fg);
        fg
    });
    {
        let (m, cv) = &*gate;
        let mut st = m.lock().unwrap();
        let lim = std::time::Instant::now() + std::time::Duration::from_secs(5);
        while !st.0 && std::time::Instant::now() < lim {
            st = cv.wait_timeout(st, std::time::Duration::from_millis(20)).unwrap().0;
        }
    }
    let s2 = sink.clone();
    let b = std::thread::spawn(move || {
        drop(ff);
        s2.count()
    });
    // B either finishes (it must then have appended) or waits for the formatter; give it a moment, then let A go on
    let t0 = std::time::Instant::now();
    while !b.is_finished() && t0.elapsed() < std::time::Duration::from_millis(60) {
        std::thread::sleep(std::time::Duration::from_millis(2));
    }
    let finished_early = b.is_finished();
    {
        let (m, cv) = &*gate;
        m.lock().unwrap().1 = true;
        cv.notify_all();
    }
    let at_return = b.join().map_err(|_| "the dropping thread panicked".to_string())?;
    let fg = a.join().map_err(|_| "the formatting thread panicked".to_string())?;
    drop(fg);
    drop(w);
    if at_return != 1 {
        return Err(format!("a force-flush guard was dropped (owner gone) while another thread was Debug-formatting a flush guard of the entry: {at_return} entries appended when the drop returned (finished while the formatter was stalled: {finished_early})"));
    }
    if sink.count() != 1 { return Err(format!("{} entries appended in the end", sink.count())); }
    Ok(())
}

pub fn set_perturb(r: Option<Rng>) {
    PERTURB.with(|p| *p.borrow_mut() = r);
}
pub fn install_controller() {
    static ONCE: std::sync::Once = std::sync::Once::new();
    ONCE.call_once(|| {
        metrique::verif::install(Some(Arc::new(|name: &'static str| sync_point(name))));
    });
}
/// Reached by library hooks (through the installed controller) and by harness code directly.
pub fn sync_point(name: &'static str) {
    if name == "slotguard.sent" && IN_CLOSE.with(|c| c.get()) {
        return;
    }
    if NO_PARK.with(|c| c.get()) {
        return;
    }
    let cur = CUR.with(|c| c.borrow().clone());
    if let Some((s, tid)) = cur {
        s.pause(tid, name);
        return;
    }
    // the lock probe: this thread is to be held right after it took the keep-alive closure out of the guard's mutex
    if name == "dropall.taken" {
        if let Some(g) = PROBE_HOLD.with(|p| p.borrow().clone()) {
            let (m, cv) = &*g;
            let mut st = m.lock().unwrap();
            st.0 = true;
            cv.notify_all();
            while !st.1 {
                st = cv.wait(st).unwrap();
            }
            return;
        }
    }
    let n = PERTURB.with(|p| p.borrow_mut().as_mut().map(|r| r.below(8)));
    if let Some(n) = n {
        // widen the race windows: mostly a few yields, sometimes a short sleep
        if n >= 6 {
            std::thread::sleep(std::time::Duration::from_micros(40 * (n - 5)));
        } else {
            for _ in 0..n {
                std::thread::yield_now();
            }
        }
    }
}
pub fn point_code(name: &str) -> u64 {
    match name {
        "dropall.upgraded" => 1,
        "dropall.taken" => 2,
        "dropall.unlocked" => 3,
        "slotguard.sent" => 4,
        "close.field" => 5,
        _ => 0, // "op" (between actions) and "done"
    }
}
impl Sched {
    fn pause(&self, tid: usize, name: &'static str) {
        let mut st = self.st.lock().unwrap();
        if st.aborted {
            return;
        }
        st.status[tid] = Status::Parked(name);
        self.cv.notify_all();
        while st.turn != Some(tid) && !st.aborted {
            st = self.cv.wait(st).unwrap();
        }
        if st.turn == Some(tid) {
            st.turn = None;
        }
        st.status[tid] = Status::Running;
    }
    fn finish(&self, tid: usize) {
        let mut st = self.st.lock().unwrap();
        st.status[tid] = Status::Done;
        self.cv.notify_all();
    }
    /// Runs `nthreads` logical threads (`body(tid)`, which must call `sync_point("op")` before every action)
    /// under the control of `choose`, which picks among the runnable parked threads. `blocked` tells which
    /// parked threads cannot proceed (they would block on a lock held by another parked thread).
    /// Returns the trace [(granted thread, sync point it reached next)] and the branching degree of every step.
    pub fn run(
        nthreads: usize,
        body: Arc<dyn Fn(usize) + Send + Sync>,
        blocked: &dyn Fn(&[(usize, &'static str)], usize, Option<usize>) -> bool,
        choose: &mut dyn FnMut(&[usize]) -> usize,
    ) -> (Vec<(usize, &'static str)>, Vec<usize>, bool) {
        install_controller();
        let s = Arc::new(Sched { st: Mutex::new(SchedSt { status: vec![Status::Running; nthreads], turn: None, aborted: false }), cv: Condvar::new(), step: AtomicUsize::new(0) });
        let mut joins = vec![];
        for tid in 0..nthreads {
            let s2 = s.clone();
            let b = body.clone();
            joins.push(std::thread::spawn(move || {
                CUR.with(|c| *c.borrow_mut() = Some((s2.clone(), tid)));
                let r = std::panic::catch_unwind(std::panic::AssertUnwindSafe(|| b(tid)));
                CUR.with(|c| *c.borrow_mut() = None);
                s2.finish(tid);
                r.is_ok()
            }));
        }
        let mut trace = vec![];
        let mut branching = vec![];
        let mut deadlock = false;
        // the thread between "dropall.taken" and "dropall.unlocked" holds the guard mutex (also while it is
        // parked at a sync point inside the closure call, e.g. while closing the entry)
        let mut holder: Option<usize> = None;
        loop {
            let mut st = s.st.lock().unwrap();
            let t0 = std::time::Instant::now();
            while st.status.iter().any(|x| *x == Status::Running) && !st.aborted {
                let (g, _) = s.cv.wait_timeout(st, std::time::Duration::from_millis(200)).unwrap();
                st = g;
                if t0.elapsed() > std::time::Duration::from_secs(8) {
                    st.aborted = true;
                    deadlock = true;
                    s.cv.notify_all();
                }
            }
            if st.aborted {
                drop(st);
                break;
            }
            let parked: Vec<(usize, &'static str)> = st.status.iter().enumerate()
                .filter_map(|(i, x)| if let Status::Parked(n) = x { Some((i, *n)) } else { None }).collect();
            if parked.is_empty() {
                break;
            }
            let mut runnable: Vec<usize> = parked.iter().filter(|(t, _)| !blocked(&parked, *t, holder)).map(|(t, _)| *t).collect();
            if runnable.is_empty() {
                // cannot happen unless the implementation deadlocks; release everybody to terminate
                deadlock = true;
                runnable = parked.iter().map(|(t, _)| *t).collect();
            }
            branching.push(runnable.len());
            let t = choose(&runnable);
            s.step.store(trace.len(), SeqCst);
            st.turn = Some(t);
            st.status[t] = Status::Running;
            s.cv.notify_all();
            let t0 = std::time::Instant::now();
            while st.status[t] == Status::Running && !st.aborted {
                let (g, _) = s.cv.wait_timeout(st, std::time::Duration::from_millis(200)).unwrap();
                st = g;
                if t0.elapsed() > std::time::Duration::from_secs(8) {
                    st.aborted = true;
                    deadlock = true;
                    s.cv.notify_all();
                }
            }
            if st.aborted {
                drop(st);
                break;
            }
            let reached = match st.status[t] { Status::Parked(n) => n, _ => "done" };
            if reached == "dropall.taken" {
                holder = Some(t);
            } else if holder == Some(t) && (reached == "dropall.unlocked" || reached == "done" || reached == "op") {
                holder = None;
            }
            trace.push((t, reached));
        }
        let mut all_ok = true;
        for j in joins {
            all_ok &= j.join().unwrap_or(false);
        }
        (trace, branching, all_ok && !deadlock)
    }
}

/// A thread parked before the guard mutex cannot proceed while another parked thread holds it.
pub fn keepalive_blocked(parked: &[(usize, &'static str)], t: usize, holder: Option<usize>) -> bool {
    let me = parked.iter().find(|(x, _)| *x == t).map(|(_, n)| *n).unwrap_or("");
    me == "dropall.upgraded" && holder.is_some() && holder != Some(t)
}

/// One run of a threaded case: `setup` on the calling thread, then the per-thread programs under `choose`.
/// Returns (implementation output, branching degrees, actual thread sequence).
fn exec_threads(setup: &[Op], prog: &[(usize, Op)], choose: &mut dyn FnMut(&[usize]) -> usize) -> (Sx, Vec<usize>, Vec<usize>) {
    progress();
    let nthreads = prog.iter().map(|(t, _)| *t + 1).max().unwrap_or(0);
    let mut w = World::new();
    for &op in setup {
        w.apply(op);
    }
    let sink = w.sink.clone();
    let world = Arc::new(Mutex::new(w));
    let progs: Vec<Vec<Op>> = (0..nthreads).map(|t| prog.iter().filter(|(x, _)| *x == t).map(|(_, o)| *o).collect()).collect();
    let w2 = world.clone();
    let body: Arc<dyn Fn(usize) + Send + Sync> = Arc::new(move |tid| {
        for &op in &progs[tid] {
            sync_point("op");
            apply_shared(&w2, op);
        }
    });
    let (trace, branching, ok) = Sched::run(nthreads, body, &keepalive_blocked, choose);
    // counts are read after the fact from the order of events: every grant is one block, the sink's record
    // count after each block is recovered from the records' sequence numbers
    let recs = sink.records.lock().unwrap().clone();
    let seqs = sink.seqs.lock().unwrap().clone();
    let mut obs = vec![];
    for (j, (_t, name)) in trace.iter().enumerate() {
        let cnt = seqs.iter().filter(|&&b| b <= j).count();
        obs.push(Sx::L(vec![sx::n(point_code(name)), sx::n(cnt as u64)]));
    }
    let tids: Vec<usize> = trace.iter().map(|(t, _)| *t).collect();
    let out = Sx::L(vec![Sx::L(obs), Sx::L(recs.iter().map(|r| r.enc()).collect()), sx::boolean(ok)]);
    drop(world);
    (out, branching, tids)
}

/// An action by one thread on the shared world: the object is taken out under the world lock, the drop itself
/// (which may park at sync points) runs outside it.
fn apply_shared(world: &Arc<Mutex<World>>, op: Op) {
    let mut doomed: Option<Box<dyn std::any::Any + Send>> = None;
    {
        let mut w = world.lock().unwrap_or_else(|e| e.into_inner());
        set_no_park(true);
        let t = w.sink.tracker.clone();
        match op {
            Op::DropOwner(k) => {
                if !w.owners.is_empty() {
                    let k = k % w.owners.len();
                    let o = w.owners.remove(k);
                    t.owners.fetch_sub(1, SeqCst);
                    doomed = Some(Box::new(o));
                }
            }
            Op::DropFlush(k) => {
                if !w.fgs.is_empty() {
                    let k = k % w.fgs.len();
                    let g = w.fgs.remove(k);
                    t.fgs.fetch_sub(1, SeqCst);
                    doomed = Some(Box::new(g));
                }
            }
            Op::DropForce(k) => {
                if !w.ffs.is_empty() {
                    let k = k % w.ffs.len();
                    let g = w.ffs.remove(k);
                    t.forced.fetch_add(1, SeqCst);
                    doomed = Some(Box::new(g));
                }
            }
            other => w.apply(other),
        }
        set_no_park(false);
    }
    drop(doomed);
}

fn dec_prog(x: &Sx) -> Vec<(usize, Op)> {
    x.list().iter().map(|e| (e.list()[0].num() as usize, dec_op(&e.list()[1]))).collect()
}
fn enc_prog(prog: &[(usize, Op)]) -> Sx {
    Sx::L(prog.iter().map(|(t, o)| Sx::L(vec![sx::n(*t as u64), enc_op(o)])).collect())
}
fn enc_ops(ops: &[Op]) -> Sx {
    Sx::L(ops.iter().map(enc_op).collect())
}
fn thread_case(setup: &[Op], prog: &[(usize, Op)], tids: &[usize]) -> Sx {
    sx::tag(1, vec![enc_ops(setup), enc_prog(prog), Sx::L(tids.iter().map(|&t| sx::n(t as u64)).collect())])
}

/// Follows a recorded thread sequence; a thread that is not runnable when its turn comes makes the run "diverged".
fn follow<'a>(tids: &'a [usize], pos: &'a mut usize, diverged: &'a mut bool) -> impl FnMut(&[usize]) -> usize + 'a {
    move |runnable: &[usize]| {
        let want = tids.get(*pos).copied();
        *pos += 1;
        match want {
            Some(t) if runnable.contains(&t) => t,
            _ => {
                *diverged = true;
                runnable[0]
            }
        }
    }
}

pub fn exec(case: &Sx) -> (Sx, bool) {
    match case.tag() {
        1 => {
            let setup: Vec<Op> = case.arg(0).list().iter().map(dec_op).collect();
            let prog = dec_prog(case.arg(1));
            let tids: Vec<usize> = case.arg(2).list().iter().map(|x| x.num() as usize).collect();
            let (mut pos, mut diverged) = (0usize, false);
            let (out, _, _) = {
                let mut ch = follow(&tids, &mut pos, &mut diverged);
                exec_threads(&setup, &prog, &mut ch)
            };
            let out = if diverged {
                let mut v = out.list().to_vec();
                v[2] = sx::boolean(false);
                Sx::L(v)
            } else {
                out
            };
            (out, true)
        }
        2 => {
            let setup: Vec<Op> = case.arg(0).list().iter().map(dec_op).collect();
            let prog = dec_prog(case.arg(1));
            (sx::boolean(exec_stress(&setup, &prog, case.arg(2).num() as u64).is_ok()), true)
        }
        3 if case.arg(2).num() == 2 => (sx::boolean(exec_self_owned_probe(case.arg(0).num() as usize).is_ok()), true),
        3 if case.arg(2).num() == 1 => (sx::boolean(exec_debug_probe(case.arg(0).num() as usize).is_ok()), true),
        3 => (sx::boolean(exec_lock_probe(case.arg(0).num() as usize, case.arg(1).num() as usize).is_ok()), true),
        _ => {
            let ops: Vec<Op> = case.arg(0).list().iter().map(dec_op).collect();
            let guards = ops.iter().any(|o| matches!(o, Op::NewFlush | Op::NewForce));
            let owner_dropped = ops.iter().any(|o| matches!(o, Op::DropOwner(_)));
            // second argument (the model does not read it): 1 = every drop is placed on an unwinding frame,
            // 2-4 = every drop happens inside another entry's destructor (drop_nested modes 1-3)
            let placement = if case.list().len() > 2 { case.arg(1).num() as u64 } else { 0 };
            (exec_seq(&ops, placement), guards && owner_dropped)
        }
    }
}


/// Explores the schedules of one configuration depth-first over the choice vector (at most `limit` runs);
/// if the space is larger, `limit` further runs use seeded random choices. Every run is one case.
fn explore(out: &mut Out, setup: &[Op], prog: &[(usize, Op)], limit: usize, rng: &mut Rng, label: &str) {
    let mut choices: Vec<usize> = vec![];
    let mut runs = 0usize;
    let mut exhausted = false;
    loop {
        let mut pos = 0usize;
        let cv = choices.clone();
        let mut choose = |runnable: &[usize]| {
            let c = cv.get(pos).copied().unwrap_or(0);
            pos += 1;
            runnable[c.min(runnable.len() - 1)]
        };
        let (imp, branching, tids) = exec_threads(setup, prog, &mut choose);
        out.case(&thread_case(setup, prog, &tids), &imp, true);
        out.count(&format!("sched_dfs_{label}"));
        runs += 1;
        let mut full: Vec<usize> = (0..branching.len()).map(|j| cv.get(j).copied().unwrap_or(0)).collect();
        let mut j = full.len();
        loop {
            if j == 0 {
                exhausted = true;
                break;
            }
            j -= 1;
            if full[j] + 1 < branching[j] {
                full[j] += 1;
                full.truncate(j + 1);
                break;
            }
        }
        if exhausted || runs >= limit {
            break;
        }
        choices = full;
    }
    if exhausted {
        out.count(&format!("sched_space_exhausted_{label}"));
    } else {
        for _ in 0..limit {
            let mut r = rng.fork();
            let mut choose = |runnable: &[usize]| runnable[r.below(runnable.len() as u64) as usize];
            let (imp, _, tids) = exec_threads(setup, prog, &mut choose);
            out.case(&thread_case(setup, prog, &tids), &imp, true);
            out.count(&format!("sched_random_{label}"));
        }
    }
}

/// Free-running real threads (no scheduler): sync points become a few seeded `yield_now`s. Checked by the
/// predicate only: exactly one append once everything is dropped, made when nobody owned the entry and the
/// guards were gone or overridden, carrying every mutation exactly once.
fn exec_stress(setup: &[Op], prog: &[(usize, Op)], seed: u64) -> Result<(), String> {
    progress();
    install_controller();
    let nthreads = prog.iter().map(|(t, _)| *t + 1).max().unwrap_or(0);
    let mut w = World::new();
    for &op in setup {
        w.apply(op);
    }
    let sink = w.sink.clone();
    let world = Arc::new(Mutex::new(w));
    let barrier = Arc::new(std::sync::Barrier::new(nthreads));
    let mut joins = vec![];
    for tid in 0..nthreads {
        let ops: Vec<Op> = prog.iter().filter(|(x, _)| *x == tid).map(|(_, o)| *o).collect();
        let (w2, b2) = (world.clone(), barrier.clone());
        joins.push(std::thread::spawn(move || {
            PERTURB.with(|p| *p.borrow_mut() = Some(Rng::new(seed ^ ((tid as u64 + 1) << 32))));
            b2.wait();
            for &op in &ops {
                sync_point("op");
                apply_shared(&w2, op);
            }
            PERTURB.with(|p| *p.borrow_mut() = None);
        }));
    }
    for j in joins {
        j.join().map_err(|_| "a thread panicked".to_string())?;
    }
    // drop what is left (in creation order), then judge
    {
        let mut w = world.lock().unwrap_or_else(|e| e.into_inner());
        while !w.owners.is_empty() { w.apply(Op::DropOwner(0)); }
        while !w.fgs.is_empty() { w.apply(Op::DropFlush(0)); }
        while !w.ffs.is_empty() { w.apply(Op::DropForce(0)); }
    }
    let recs = sink.records.lock().unwrap().clone();
    if recs.len() != 1 {
        return Err(format!("{} appends after everything was dropped", recs.len()));
    }
    let r = &recs[0];
    if r.owners != 0 || !(r.fgs == 0 || r.forced > 0) {
        return Err(format!("appended early: live owners {} flush guards {} force guards dropped {}", r.owners, r.fgs, r.forced));
    }
    let mut expected = world.lock().unwrap_or_else(|e| e.into_inner()).applied_muts.clone();
    let mut got = r.log.clone();
    got.sort();
    expected.sort();
    if got != expected {
        return Err(format!("content {:?} but mutations made were {:?}", got, expected));
    }
    Ok(())
}

fn stress_case(setup: &[Op], prog: &[(usize, Op)], seed: u64) -> Sx {
    sx::tag(2, vec![enc_ops(setup), enc_prog(prog), sx::n(seed)])
}

/// Configurations for the races the property names: last flush guard / force guard / owner on different threads.
fn curated() -> Vec<(&'static str, Vec<Op>, Vec<(usize, Op)>)> {
    use Op::*;
    vec![
        ("owner_force_guard", vec![NewFlush, NewForce, Mutate(1)],
         vec![(0, DropOwner(0)), (1, DropForce(0)), (2, DropFlush(0))]),
        ("two_force_two_guards", vec![NewFlush, NewFlush, NewForce, NewForce],
         vec![(0, Mutate(2)), (0, DropOwner(0)), (1, DropForce(0)), (1, DropFlush(0)), (2, DropForce(0)), (2, DropFlush(0))]),
        ("force_force_owner", vec![NewForce, NewForce],
         vec![(0, DropForce(0)), (1, DropForce(0)), (2, DropOwner(0))]),
        ("handles", vec![Mutate(3), NewFlush, NewForce, MakeHandle, CloneHandle(0)],
         vec![(0, Mutate(4)), (0, DropOwner(0)), (1, DropOwner(0)), (2, DropForce(0)), (2, DropFlush(0))]),
        ("guard_after_force", vec![NewForce],
         vec![(0, NewFlush), (0, Mutate(5)), (0, DropOwner(0)), (0, DropFlush(0)), (1, DropForce(0))]),
        ("guards_only", vec![NewFlush, NewFlush, NewFlush],
         vec![(0, DropOwner(0)), (0, DropFlush(0)), (1, DropFlush(0)), (2, DropFlush(0))]),
        ("late_force", vec![NewFlush, NewForce, NewForce],
         vec![(0, DropOwner(0)), (0, DropFlush(0)), (1, DropForce(0)), (2, DropForce(0))]),
    ]
}

/// A random configuration: a sequential prefix, then the remaining actions dealt to 2-3 threads.
fn random_config(rng: &mut Rng) -> (Vec<Op>, Vec<(usize, Op)>) {
    let len = rng.range(5, 14) as usize;
    let ops = random_history(rng, len);
    let cut = rng.range(1, (ops.len() as u64).saturating_sub(2).max(1)) as usize;
    let nthreads = rng.range(2, 3);
    let setup = ops[..cut.min(ops.len())].to_vec();
    let prog = ops[cut.min(ops.len())..].iter().map(|o| (rng.below(nthreads) as usize, *o)).collect();
    (setup, prog)
}

struct Caps {
    clones: usize,
    fgs: usize,
    ffs: usize,
    muts: usize,
    depth: usize,
}

#[derive(Clone, Default)]
struct Shape {
    owners: usize,
    handle: bool,
    fgs: usize,
    ffs: usize,
    clones_made: usize,
    fgs_made: usize,
    ffs_made: usize,
    muts: usize,
}

/// Every complete history (all objects dropped at the end) within the caps; which of several live objects of
/// one kind is dropped is enumerated too.
fn enumerate(caps: &Caps, sh: &Shape, pre: &mut Vec<Op>, f: &mut dyn FnMut(&[Op])) {
    if sh.owners == 0 && sh.fgs == 0 && sh.ffs == 0 {
        f(pre);
        return;
    }
    if pre.len() >= caps.depth {
        return;
    }
    let mut next: Vec<(Op, Shape)> = vec![];
    if sh.owners > 0 {
        if sh.muts < caps.muts {
            let mut s = sh.clone();
            s.muts += 1;
            next.push((Op::Mutate(10 + sh.muts as u64), s));
        }
        if !sh.handle && sh.clones_made < caps.clones {
            let mut s = sh.clone();
            s.handle = true;
            next.push((Op::MakeHandle, s));
        }
        if sh.handle && sh.clones_made < caps.clones {
            let mut s = sh.clone();
            s.owners += 1;
            s.clones_made += 1;
            next.push((Op::CloneHandle(0), s));
        }
        if !sh.handle && sh.fgs_made < caps.fgs {
            let mut s = sh.clone();
            s.fgs += 1;
            s.fgs_made += 1;
            next.push((Op::NewFlush, s));
        }
        if !sh.handle && sh.ffs_made < caps.ffs {
            let mut s = sh.clone();
            s.ffs += 1;
            s.ffs_made += 1;
            next.push((Op::NewForce, s));
        }
        for k in 0..sh.owners {
            let mut s = sh.clone();
            s.owners -= 1;
            // the direct owner is dropped plainly (even index) or through Instrumented::emit (odd index)
            let k = if !sh.handle && pre.len() % 2 == 1 { 1 } else { k };
            next.push((Op::DropOwner(k), s));
        }
    }
    for k in 0..sh.fgs {
        let mut s = sh.clone();
        s.fgs -= 1;
        next.push((Op::DropFlush(k), s));
    }
    for k in 0..sh.ffs {
        let mut s = sh.clone();
        s.ffs -= 1;
        next.push((Op::DropForce(k), s));
    }
    for (op, s) in next {
        pre.push(op);
        enumerate(caps, &s, pre, f);
        pre.pop();
    }
}

fn random_history(rng: &mut Rng, len: usize) -> Vec<Op> {
    let mut sh = Shape { owners: 1, ..Default::default() };
    let mut ops = vec![];
    let want_handle = rng.chance(1, 2);
    for i in 0..len {
        let mut cand: Vec<Op> = vec![];
        if sh.owners > 0 {
            cand.push(Op::Mutate(rng.range(0, 1 << 20)));
            if !sh.handle {
                cand.push(Op::NewFlush);
                cand.push(Op::NewFlush);
                cand.push(Op::NewForce);
            }
            if want_handle && !sh.handle && (i * 4 > len || rng.chance(1, 8)) {
                cand.push(Op::MakeHandle);
                cand.push(Op::MakeHandle);
            }
            if sh.handle {
                cand.push(Op::CloneHandle(rng.below(8) as usize));
            }
            // keep the owner for a while so that guards accumulate
            if i * 3 > len || rng.chance(1, 6) {
                cand.push(Op::DropOwner(rng.below(8) as usize));
            }
        }
        if sh.fgs > 0 {
            cand.push(Op::DropFlush(rng.below(8) as usize));
        }
        if sh.ffs > 0 {
            cand.push(Op::DropForce(rng.below(8) as usize));
        }
        if cand.is_empty() {
            break;
        }
        let op = *rng.pick(&cand);
        match op {
            Op::MakeHandle => sh.handle = true,
            Op::CloneHandle(_) => sh.owners += 1,
            Op::NewFlush => sh.fgs += 1,
            Op::NewForce => sh.ffs += 1,
            Op::DropOwner(_) => sh.owners -= 1,
            Op::DropFlush(_) => sh.fgs -= 1,
            Op::DropForce(_) => sh.ffs -= 1,
            Op::Mutate(_) => {}
        }
        ops.push(op);
    }
    // finish: drop what is left in a random order
    loop {
        let mut cand: Vec<Op> = vec![];
        if sh.owners > 0 { cand.push(Op::DropOwner(rng.below(8) as usize)); }
        if sh.fgs > 0 { cand.push(Op::DropFlush(rng.below(8) as usize)); }
        if sh.ffs > 0 { cand.push(Op::DropForce(rng.below(8) as usize)); }
        if cand.is_empty() { break; }
        let op = *rng.pick(&cand);
        match op {
            Op::DropOwner(_) => sh.owners -= 1,
            Op::DropFlush(_) => sh.fgs -= 1,
            _ => sh.ffs -= 1,
        }
        ops.push(op);
    }
    ops
}

fn count_ops(out: &mut Out, ops: &[Op]) {
    for o in ops {
        out.count(match o {
            Op::Mutate(_) => "op_mutate",
            Op::MakeHandle => "op_make_handle",
            Op::CloneHandle(_) => "op_clone_handle",
            Op::NewFlush => "op_new_flush_guard",
            Op::NewForce => "op_new_force_guard",
            Op::DropOwner(_) => "op_drop_owner_or_handle",
            Op::DropFlush(_) => "op_drop_flush_guard",
            Op::DropForce(_) => "op_drop_force_guard",
        });
    }
}

pub fn run(ctx: &Ctx) {
    start_watchdog();
    let mut out = Out::new(ctx, "");
    let emit = |out: &mut Out, case: Sx| {
        if case.tag() == 0 && case.list().len() > 2 {
            out.inflight(&case);
        }
        let (imp, nt) = exec(&case);
        out.case(&case, &imp, nt);
    };
    let mut tout = Out::new(ctx, "-t");
    if let Some(p) = &ctx.replay {
        for line in std::fs::read_to_string(p).unwrap().lines().filter(|l| l.starts_with('(')) {
            let case = sx::parse(line);
            if case.tag() == 0 {
                emit(&mut out, case);
            } else {
                if case.tag() == 2 {
                    let setup: Vec<Op> = case.arg(0).list().iter().map(dec_op).collect();
                    if let Err(e) = exec_stress(&setup, &dec_prog(case.arg(1)), case.arg(2).num() as u64) {
                        tout.fail(format!("free-running threads: {e}"), &case);
                    }
                }
                emit(&mut tout, case);
            }
        }
        out.finish("replay");
        tout.finish("replay");
        return;
    }
    // exhaustive: every complete history within the caps
    let caps = if ctx.tier_thorough {
        Caps { clones: 2, fgs: 3, ffs: 2, muts: 1, depth: 14 }
    } else {
        Caps { clones: 1, fgs: 2, ffs: 1, muts: 1, depth: 10 }
    };
    let mut all: Vec<Vec<Op>> = vec![];
    enumerate(&caps, &Shape { owners: 1, ..Default::default() }, &mut vec![], &mut |ops| all.push(ops.to_vec()));
    for ops in &all {
        out.count(&format!("exhaustive_len_{:02}", ops.len()));
        emit(&mut out, sx::tag(0, vec![Sx::L(ops.iter().map(enc_op).collect())]));
    }
    // the same histories with every drop performed by a frame that is unwinding from a panic
    for ops in all.iter().filter(|o| o.len() <= if ctx.tier_thorough { 10 } else { 8 }) {
        out.count("histories_with_drops_during_unwind");
        emit(&mut out, sx::tag(0, vec![Sx::L(ops.iter().map(enc_op).collect()), sx::boolean(true)]));
    }
    // the same histories with every drop performed inside the destructor of another entry (a carrier that owns the
    // object), the carrier being emitted by its owner, its last flush guard, or a force-flush guard
    for (i, ops) in all.iter().filter(|o| o.len() <= if ctx.tier_thorough { 10 } else { 8 }).enumerate() {
        let modes: &[u64] = if ctx.tier_thorough { &[2, 3, 4] } else { &[2 + (i as u64 % 3)] };
        for &m in modes {
            out.count("histories_with_drops_inside_another_entrys_destructor");
            emit(&mut out, sx::tag(0, vec![Sx::L(ops.iter().map(enc_op).collect()), sx::n(m)]));
        }
    }
    out.add("exhaustive_histories", all.len() as u64);
    let mut rng = Rng::new(ctx.seed);
    let nrand = if ctx.tier_thorough { 20000 } else { 3000 };
    for _ in 0..nrand {
        let len = rng.range(4, if ctx.tier_thorough { 60 } else { 30 }) as usize;
        let ops = random_history(&mut rng, len);
        count_ops(&mut out, &ops);
        out.count("random_histories");
        emit(&mut out, sx::tag(0, vec![Sx::L(ops.iter().map(enc_op).collect())]));
    }
    // scheduled multi-thread runs
    let limit = if ctx.tier_thorough { 4000 } else { 250 };
    for (label, setup, prog) in curated() {
        explore(&mut tout, &setup, &prog, limit, &mut rng, label);
    }
    let nconf = if ctx.tier_thorough { 600 } else { 120 };
    for _ in 0..nconf {
        let (setup, prog) = random_config(&mut rng);
        for _ in 0..(if ctx.tier_thorough { 12 } else { 4 }) {
            let mut r = rng.fork();
            let mut choose = |runnable: &[usize]| runnable[r.below(runnable.len() as u64) as usize];
            let (imp, _, tids) = exec_threads(&setup, &prog, &mut choose);
            tout.case(&thread_case(&setup, &prog, &tids), &imp, true);
            tout.count("sched_random_config");
        }
    }
    // the lock probe: a second force-flush guard dropped while the first is between taking the keep-alive closure and
    // appending (owner gone, flush guards alive) must not return before the entry is appended
    for (nflush, nforce) in [(1usize, 2usize), (2, 2), (1, 3), (3, 3)] {
        for _ in 0..(if ctx.tier_thorough { 5 } else { 2 }) {
            let case = sx::tag(3, vec![sx::n(nflush as u64), sx::n(nforce as u64)]);
            let r = exec_lock_probe(nflush, nforce);
            if let Err(e) = &r {
                tout.fail(format!("lock probe: {e}"), &case);
            }
            tout.case(&case, &sx::boolean(r.is_ok()), true);
            tout.count("lock_probe_runs");
        }
    }
    for nflush in [1usize, 2] {
        for _ in 0..(if ctx.tier_thorough { 4 } else { 2 }) {
            let case = sx::tag(3, vec![sx::n(nflush as u64), sx::n(1u8), sx::n(1u8)]);
            let r = exec_debug_probe(nflush);
            if let Err(e) = &r {
                tout.fail(format!("lock probe: {e}"), &case);
            }
            tout.case(&case, &sx::boolean(r.is_ok()), true);
            tout.count("lock_probe_runs_with_a_formatting_thread");
        }
    }
    // an entry owning a force-flush guard of itself (known finding on the code as found: self-deadlock)
    {
        let case = sx::tag(3, vec![sx::n(1u8), sx::n(0u8), sx::n(2u8)]);
        let r = exec_self_owned_probe(1);
        if let Err(e) = &r {
            tout.fail(e.clone(), &case);
        }
        tout.case(&case, &sx::boolean(r.is_ok()), true);
        tout.count("self_owned_force_guard_probe");
    }
    // free-running stress, predicate only
    let nstress = if ctx.tier_thorough { 300 } else { 40 };
    let mut confs: Vec<(Vec<Op>, Vec<(usize, Op)>)> = curated().into_iter().map(|(_, a, b)| (a, b)).collect();
    for _ in 0..20 {
        confs.push(random_config(&mut rng));
    }
    for (setup, prog) in &confs {
        for _ in 0..nstress {
            let seed = rng.next();
            let case = stress_case(setup, prog, seed);
            let r = exec_stress(setup, prog, seed);
            if let Err(e) = &r {
                tout.fail(format!("free-running threads: {e}"), &case);
            }
            tout.case(&case, &sx::boolean(r.is_ok()), true);
            tout.count("stress_runs");
        }
    }
    tout.finish("multi-thread: per configuration (curated races: owner / last flush guard / force guard on different threads, handles, guard created after a force drop; plus random ones) every schedule at sync-point granularity depth-first up to the tier's limit, then seeded random schedules; plus free-running real threads with perturbation at the sync points (predicate only); every case non-trivial");
    out.finish("sequential: every complete create/drop/mutate history within the tier's caps (which live object is dropped enumerated too) plus random longer ones; non-trivial = at least one guard created and an owner dropped; distinct by hash of the case");
}
