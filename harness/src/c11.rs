//! C11 — histograms: bucket layout of the `histogram` crate, Histogram / SharedHistogram with the three
//! aggregation strategies, all source types, re-aggregation, concurrent recording.
use crate::common::{Ctx, Out, Rng};
use crate::sx::{self, Sx};
use metrique_aggregation::histogram::{
    AggregationStrategy, AtomicExponentialAggregationStrategy, ExponentialAggregationStrategy, Histogram,
    HistogramClosed, SharedHistogram, SortAndMerge,
};
use metrique_aggregation::traits::AggregateValue;
use metrique_core::CloseValue;
use metrique_writer_core::unit::{Convert, Microsecond, Millisecond, Second, UnitTag, WithUnit};
use metrique_writer_core::value::MetricFlags;
use metrique_writer_core::{MetricValue, Observation, Unit, ValidationError, Value, ValueWriter};
use std::sync::{Arc, Barrier};
use std::time::Duration;

const CANON_NAN: u64 = 0x7ff8_0000_0000_0000;

// ------------------------------------------------------------------------------------------ wire

fn enc_obs(o: &Observation) -> Sx {
    match *o {
        Observation::Unsigned(v) => sx::tag(0, vec![sx::n(v)]),
        Observation::Floating(f) => sx::tag(1, vec![sx::n(f.to_bits())]),
        Observation::Repeated { total, occurrences } => sx::tag(2, vec![sx::n(total.to_bits()), sx::n(occurrences)]),
        _ => sx::tag(9, vec![]),
    }
}
fn enc_out(o: &Observation) -> Sx {
    match *o {
        Observation::Repeated { total, occurrences } => {
            let b = if total.is_nan() { CANON_NAN } else { total.to_bits() };
            sx::tag(2, vec![sx::n(b), sx::n(occurrences)])
        }
        ref other => enc_obs(other),
    }
}
fn dec_obs(x: &Sx) -> Observation {
    match x.tag() {
        0 => Observation::Unsigned(x.arg(0).num() as u64),
        1 => Observation::Floating(f64::from_bits(x.arg(0).num() as u64)),
        _ => Observation::Repeated { total: f64::from_bits(x.arg(0).num() as u64), occurrences: x.arg(1).num() as u64 },
    }
}

/// The value types T a histogram is instantiated with.
#[derive(Clone, Copy, Debug, PartialEq)]
enum Ty { Obs, U64, F64, Dur, DurMicros, DurSecs, U64Millis }
const TYS: [Ty; 7] = [Ty::Obs, Ty::U64, Ty::F64, Ty::Dur, Ty::DurMicros, Ty::DurSecs, Ty::U64Millis];

/// A source as generated: the plain datum; its wire form depends on the type it is recorded through.
#[derive(Clone, Copy, Debug)]
enum Src { Obs(Observation), Dur(u64, u32) }

fn ratio_bits(ty: Ty) -> u64 {
    match ty {
        Ty::DurMicros => <Millisecond as Convert<Microsecond>>::RATIO.to_bits(),
        Ty::DurSecs => <Millisecond as Convert<Second>>::RATIO.to_bits(),
        Ty::U64Millis => <metrique_writer_core::unit::None as Convert<Millisecond>>::RATIO.to_bits(),
        _ => 1.0f64.to_bits(),
    }
}
fn enc_src(ty: Ty, s: &Src) -> Sx {
    let base = match s {
        Src::Obs(o) => sx::tag(0, vec![enc_obs(o)]),
        Src::Dur(secs, nanos) => sx::tag(1, vec![sx::n(*secs), sx::n(*nanos)]),
    };
    match ty {
        Ty::DurMicros | Ty::DurSecs | Ty::U64Millis => sx::tag(2, vec![sx::n(ratio_bits(ty)), base]),
        _ => base,
    }
}
fn dec_src(x: &Sx) -> Src {
    match x.tag() {
        0 => Src::Obs(dec_obs(x.arg(0))),
        1 => Src::Dur(x.arg(0).num() as u64, x.arg(1).num() as u32),
        _ => dec_src(x.arg(1)),
    }
}
fn ty_code(t: Ty) -> u64 { TYS.iter().position(|x| *x == t).unwrap() as u64 }
fn ty_of(c: u128) -> Ty { TYS[(c as usize) % TYS.len()] }

// ------------------------------------------------------------------------------------------ execution

struct Capture<'a>(&'a mut Vec<Observation>, &'a mut Option<Unit>);
impl ValueWriter for Capture<'_> {
    fn string(self, _v: &str) {}
    fn metric<'a>(self, distribution: impl IntoIterator<Item = Observation>, unit: Unit,
                  _dimensions: impl IntoIterator<Item = (&'a str, &'a str)>, _flags: MetricFlags<'_>) {
        self.0.extend(distribution);
        *self.1 = Some(unit);
    }
    fn error(self, _e: ValidationError) {}
}
fn observe<T: MetricValue>(closed: &HistogramClosed<T>) -> (Vec<Observation>, Option<Unit>) {
    let mut v = vec![];
    let mut u = None;
    closed.write(Capture(&mut v, &mut u));
    (v, u)
}

trait FromSrc: MetricValue + Sized + Send + Sync + 'static { fn from_src(s: &Src) -> Self; }
impl FromSrc for Observation {
    fn from_src(s: &Src) -> Self { match s { Src::Obs(o) => *o, _ => Observation::Unsigned(0) } }
}
impl FromSrc for u64 {
    fn from_src(s: &Src) -> Self { match s { Src::Obs(Observation::Unsigned(v)) => *v, _ => 0 } }
}
impl FromSrc for f64 {
    fn from_src(s: &Src) -> Self { match s { Src::Obs(Observation::Floating(v)) => *v, _ => 0.0 } }
}
impl FromSrc for Duration {
    fn from_src(s: &Src) -> Self { match s { Src::Dur(secs, n) => Duration::new(*secs, *n), _ => Duration::ZERO } }
}
impl FromSrc for WithUnit<Duration, Microsecond> {
    fn from_src(s: &Src) -> Self { Duration::from_src(s).into() }
}
impl FromSrc for WithUnit<Duration, Second> {
    fn from_src(s: &Src) -> Self { Duration::from_src(s).into() }
}
impl FromSrc for WithUnit<u64, Millisecond> {
    fn from_src(s: &Src) -> Self { u64::from_src(s).into() }
}

/// Strategy codes: 0 exponential, 1 atomic exponential (SharedHistogram), 2 sort-and-merge.
fn close_one<T: FromSrc>(st: u128, srcs: &[Src], unit_ok: &mut bool) -> Vec<Observation> {
    let (obs, unit) = match st {
        0 => {
            let mut h: Histogram<T, ExponentialAggregationStrategy> = Histogram::new(ExponentialAggregationStrategy::new());
            for (i, s) in srcs.iter().enumerate() {
                // add_value takes impl Borrow<T>: by value, by reference, and through the AggregateValue impl
                match i % 3 {
                    0 => h.add_value(T::from_src(s)),
                    1 => { let v = T::from_src(s); h.add_value(&v); }
                    _ => <Histogram<T, ExponentialAggregationStrategy> as AggregateValue<T>>::insert(&mut h, T::from_src(s)),
                }
            }
            observe(&h.close())
        }
        1 => {
            let h: SharedHistogram<T, AtomicExponentialAggregationStrategy> = SharedHistogram::new(AtomicExponentialAggregationStrategy::new());
            for s in srcs { h.add_value(T::from_src(s)); }
            observe(&h.close())
        }
        _ => {
            let mut h: Histogram<T, SortAndMerge> = if srcs.len() % 2 == 0 { Histogram::new(SortAndMerge::new()) } else { Histogram::default() };
            for (i, s) in srcs.iter().enumerate() {
                // value.rs: Distribution is the AggregateValue strategy for Histogram<T, SortAndMerge>
                if i % 2 == 0 { h.add_value(T::from_src(s)); }
                else { <metrique_aggregation::value::Distribution as AggregateValue<T>>::insert(&mut h, T::from_src(s)); }
            }
            observe(&h.close())
        }
    };
    if unit != Some(<T::Unit as UnitTag>::UNIT) { *unit_ok = false; }
    obs
}

fn reagg<T: FromSrc>(st1: u128, st2: u128, groups: &[Vec<Src>]) -> (Vec<Observation>, Vec<Observation>) {
    fn build<T: FromSrc, S: AggregationStrategy>(mut h: Histogram<T, S>, srcs: &[Src]) -> HistogramClosed<T> {
        for s in srcs { h.add_value(T::from_src(s)); }
        h.close()
    }
    fn first<T: FromSrc>(st1: u128, srcs: &[Src]) -> HistogramClosed<T> {
        match st1 {
            0 => build(Histogram::<T, ExponentialAggregationStrategy>::default(), srcs),
            1 => {
                let h: SharedHistogram<T, AtomicExponentialAggregationStrategy> = SharedHistogram::default();
                for s in srcs { h.add_value(T::from_src(s)); }
                h.close()
            }
            _ => build(Histogram::<T, SortAndMerge>::default(), srcs),
        }
    }
    fn second<T: FromSrc, S: AggregationStrategy + Default>(closed: Vec<HistogramClosed<T>>) -> Vec<Observation> {
        let mut acc: Histogram<T, S> = Histogram::default();
        for c in closed {
            <Histogram<T, S> as AggregateValue<HistogramClosed<T>>>::insert(&mut acc, c);
        }
        observe(&acc.close()).0
    }
    let closed: Vec<HistogramClosed<T>> = groups.iter().map(|g| first::<T>(st1, g)).collect();
    let mut closed_obs = vec![];
    for c in &closed { closed_obs.extend(observe(c).0); }
    let fin = match st2 {
        0 | 1 => second::<T, ExponentialAggregationStrategy>(closed),
        _ => second::<T, SortAndMerge>(closed),
    };
    (closed_obs, fin)
}

fn concurrent<T: FromSrc>(threads: &[Vec<Src>]) -> Vec<Observation> {
    let h: Arc<SharedHistogram<T, AtomicExponentialAggregationStrategy>> = Arc::new(SharedHistogram::default());
    let bar = Arc::new(Barrier::new(threads.len().max(1)));
    let mut js = vec![];
    for t in threads {
        let h = h.clone();
        let bar = bar.clone();
        let vals: Vec<T> = t.iter().map(T::from_src).collect();
        js.push(std::thread::spawn(move || {
            bar.wait();
            for (i, v) in vals.into_iter().enumerate() {
                h.add_value(v);
                if i % 64 == 63 { std::thread::yield_now(); }
            }
        }));
    }
    for j in js { j.join().unwrap(); }
    let h = Arc::try_unwrap(h).ok().expect("all threads joined");
    observe(&h.close()).0
}

macro_rules! with_ty {
    ($ty:expr, $f:ident, $($a:expr),*) => {
        match $ty {
            Ty::Obs => $f::<Observation>($($a),*),
            Ty::U64 => $f::<u64>($($a),*),
            Ty::F64 => $f::<f64>($($a),*),
            Ty::Dur => $f::<Duration>($($a),*),
            Ty::DurMicros => $f::<WithUnit<Duration, Microsecond>>($($a),*),
            Ty::DurSecs => $f::<WithUnit<Duration, Second>>($($a),*),
            Ty::U64Millis => $f::<WithUnit<u64, Millisecond>>($($a),*),
        }
    };
}

fn layout(n: u8, v: u64) -> Sx {
    let mut h = histogram::Histogram::new(4, n).unwrap();
    if h.add(v, 1).is_err() { return Sx::L(vec![]); }
    let idx = h.as_slice().iter().position(|c| *c != 0).unwrap();
    let b = h.iter().nth(idx).unwrap();
    assert_eq!(b.count(), 1);
    // midpoint: as histogram.rs computes it for n = 64, as metrics_histogram.rs does for n = 32
    let mid = if n == 64 { b.start().midpoint(b.end()) } else { b.start() + (b.end() - b.start()) / 2 };
    Sx::L(vec![sx::n(idx as u64), sx::n(b.start()), sx::n(b.end()), sx::n(mid)])
}

fn srcs_of(x: &Sx) -> Vec<Src> { x.list().iter().map(dec_src).collect() }

pub fn exec(case: &Sx, out: &mut Out) -> (Sx, bool) {
    match case.tag() {
        0 => (layout(case.arg(0).num() as u8, case.arg(1).num() as u64), true),
        1 => {
            let st = case.arg(0).num();
            let ty = ty_of(case.arg(2).num());
            let srcs = srcs_of(case.arg(1));
            let mut unit_ok = true;
            let obs = with_ty!(ty, close_one, st, &srcs, &mut unit_ok);
            if !unit_ok { out.fail(format!("closed histogram of {:?} wrote a unit other than T::Unit", ty), case); }
            (Sx::L(obs.iter().map(enc_out).collect()), srcs.len() >= 2 && !obs.is_empty())
        }
        2 => {
            let ty = ty_of(case.arg(3).num());
            let groups: Vec<Vec<Src>> = case.arg(2).list().iter().map(srcs_of).collect();
            let (c, f) = with_ty!(ty, reagg, case.arg(0).num(), case.arg(1).num(), &groups);
            let nt = !f.is_empty();
            (Sx::L(vec![Sx::L(c.iter().map(enc_out).collect()), Sx::L(f.iter().map(enc_out).collect())]), nt)
        }
        _ => {
            let ty = ty_of(case.arg(2).num());
            let threads: Vec<Vec<Src>> = case.arg(1).list().iter().map(srcs_of).collect();
            let obs = with_ty!(ty, concurrent, &threads);
            (Sx::L(obs.iter().map(enc_out).collect()), threads.len() >= 2 && !obs.is_empty())
        }
    }
}

// ------------------------------------------------------------------------------------------ generation

fn case_close(st: u64, ty: Ty, srcs: &[Src]) -> Sx {
    sx::tag(1, vec![sx::n(st), Sx::L(srcs.iter().map(|s| enc_src(ty, s)).collect()), sx::n(ty_code(ty))])
}
fn case_reagg(st1: u64, st2: u64, ty: Ty, groups: &[Vec<Src>]) -> Sx {
    sx::tag(2, vec![sx::n(st1), sx::n(st2),
        Sx::L(groups.iter().map(|g| Sx::L(g.iter().map(|s| enc_src(ty, s)).collect())).collect()), sx::n(ty_code(ty))])
}
fn case_conc(ty: Ty, threads: &[Vec<Src>]) -> Sx {
    sx::tag(3, vec![sx::n(1u64), Sx::L(threads.iter().map(|g| Sx::L(g.iter().map(|s| enc_src(ty, s)).collect())).collect()), sx::n(ty_code(ty))])
}

/// All bucket ranges of Config::new(4, n), read off the real crate.
fn ranges(n: u8) -> Vec<(u64, u64)> {
    histogram::Histogram::new(4, n).unwrap().iter().map(|b| (b.start(), b.end())).collect()
}

/// A float in the property's domain: log-uniform magnitude in [2^-24, 2^43), sometimes a small integer, a
/// multiple of 1/1024, or right at a bucket boundary.
fn domain_value(rng: &mut Rng, rs: &[(u64, u64)]) -> f64 {
    match rng.below(10) {
        0 => rng.below(64) as f64,
        1 => rng.below(1 << 20) as f64 / 1024.0,
        2 | 3 => {
            // a boundary of a bucket whose scaled bounds are exactly representable, nudged by one ulp sometimes
            let (lo, hi) = rs[rng.below(800) as usize];
            let v = *rng.pick(&[lo, hi, lo.wrapping_add((hi - lo) / 2), hi.saturating_add(1), lo.saturating_sub(1)]);
            let x = v as f64 / 1024.0;
            match rng.below(4) { 0 => f64::from_bits(x.to_bits().saturating_sub(1)), 1 => f64::from_bits(x.to_bits() + 1), _ => x }
        }
        _ => {
            let e = rng.range(0, 66) as i32 - 24;
            let m = 1.0 + (rng.next() >> 11) as f64 / (1u64 << 53) as f64;
            let x = m * 2f64.powi(e);
            if x >= 8796093022208.0 { 8796093022207.0 } else { x }
        }
    }
}
/// Outside the domain: the model still has to agree bit for bit; the specification only says where it is counted.
fn wild_value(rng: &mut Rng) -> f64 {
    *rng.pick(&[-1.0, -0.0, 0.0, f64::NAN, f64::INFINITY, f64::NEG_INFINITY, f64::MAX, f64::MIN_POSITIVE, 5e-324,
        1.8e16, 1.8014398509481984e16, 1.8014398509481982e16, 1.7e19, 8796093022208.0, 9007199254740993.0, -5e-324, 1e300])
}

fn gen_src(rng: &mut Rng, ty: Ty, st: u64, rs: &[(u64, u64)], wild: bool) -> Src {
    match ty {
        Ty::U64 | Ty::U64Millis => {
            let v = match rng.below(6) {
                0 => rng.below(40),
                1 => 1u64 << rng.below(43),
                2 => (1u64 << rng.range(1, 42)) - 1,
                3 if wild => *rng.pick(&[u64::MAX, 1 << 54, (1 << 54) - 1, (1 << 53) + 1, 1 << 63]),
                _ => domain_value(rng, rs) as u64,
            };
            Src::Obs(Observation::Unsigned(v))
        }
        Ty::F64 => Src::Obs(Observation::Floating(if wild && rng.chance(1, 6) { wild_value(rng) } else { domain_value(rng, rs) })),
        Ty::Dur | Ty::DurMicros | Ty::DurSecs => {
            match rng.below(5) {
                0 => Src::Dur(0, rng.below(2_000_000) as u32),
                1 => Src::Dur(rng.below(100), rng.below(1_000_000_000) as u32),
                2 => {
                    // around a bucket boundary: ms * 1024 = lo  <=>  ns = lo * 1e6 / 1024
                    let (lo, _) = rs[rng.range(40, 700) as usize];
                    let ns = (lo as u128 * 1_000_000 / 1024) as u64 + rng.below(3) - 1;
                    Src::Dur(ns / 1_000_000_000, (ns % 1_000_000_000) as u32)
                }
                3 if wild => Src::Dur(*rng.pick(&[u64::MAX, 1 << 40, 8_796_093_022, 8_796_093_023]), rng.below(1_000_000_000) as u32),
                _ => Src::Dur(rng.below(4000), rng.below(1000) as u32 * 1_000_000),
            }
        }
        Ty::Obs => match rng.below(4) {
            0 => Src::Obs(Observation::Unsigned(domain_value(rng, rs) as u64)),
            1 => Src::Obs(Observation::Floating(if wild && rng.chance(1, 5) { wild_value(rng) } else { domain_value(rng, rs) })),
            _ => {
                // Repeated: mean * occurrences with large counts (exponential) or small ones (sort-and-merge
                // materialises every occurrence)
                let occ = if st == 2 { rng.below(40) } else {
                    match rng.below(5) { 0 => 0, 1 => rng.range(1, 10), 2 => 1u64 << rng.below(41), _ => rng.range(1, 1 << 20) }
                };
                let mean = if wild && rng.chance(1, 8) { wild_value(rng) } else { domain_value(rng, rs) };
                let total = if rng.chance(1, 2) { mean * occ as f64 } else { mean };
                Src::Obs(Observation::Repeated { total, occurrences: occ })
            }
        },
    }
}

fn gen_multiset(rng: &mut Rng, ty: Ty, st: u64, rs: &[(u64, u64)], max: u64, wild: bool) -> Vec<Src> {
    let n = match rng.below(8) { 0 => 0, 1 => 1, 2 => rng.range(2, 5), _ => rng.range(2, max) } as usize;
    let mut v: Vec<Src> = vec![];
    for _ in 0..n {
        // duplicates are common: equal values must merge
        if !v.is_empty() && rng.chance(1, 4) { let d = *rng.pick(&v); v.push(d); } else { v.push(gen_src(rng, ty, st, rs, wild)); }
    }
    v
}

fn count_case(out: &mut Out, case: &Sx) {
    match case.tag() {
        0 => out.count(if case.arg(0).num() == 64 { "layout_n64" } else { "layout_n32" }),
        1 => {
            out.count(["close_exponential", "close_atomic", "close_sort_merge"][case.arg(0).num() as usize % 3]);
            out.count(&format!("type_{:?}", ty_of(case.arg(2).num())));
            let k = case.arg(1).list().len();
            out.count(if k == 0 { "size_0" } else if k == 1 { "size_1" } else if k <= 8 { "size_2_8" } else if k <= 64 { "size_9_64" } else { "size_65_up" });
        }
        2 => out.count("reaggregate"),
        _ => { out.count("concurrent"); out.add("concurrent_threads", case.arg(1).list().len() as u64); }
    }
}

pub fn run(ctx: &Ctx) {
    let mut out = Out::new(ctx, "");
    crate::common::quiet_panics();
    let emit = |out: &mut Out, case: Sx| {
        count_case(out, &case);
        // a panic inside the implementation is an observation: distinct output, reported with the case, run goes on
        let (imp, nt) = match crate::common::catch(|| exec(&case, out)) {
            Some(r) => r,
            None => {
                out.count("cases_with_implementation_panic");
                out.fail("the implementation panicked (add_value, close, re-aggregation or the histogram crate)".into(), &case);
                (sx::tag(9, vec![sx::b(b"panic")]), true)
            }
        };
        out.case(&case, &imp, nt);
    };
    if let Some(p) = &ctx.replay {
        for line in std::fs::read_to_string(p).unwrap().lines().filter(|l| l.starts_with('(')) {
            emit(&mut out, sx::parse(line));
        }
        out.finish("replay");
        return;
    }
    let mut rng = Rng::new(ctx.seed);
    let thorough = ctx.tier_thorough;

    // (A) the layout, exhaustively: every bucket of both configurations, its bounds, their neighbours, the
    //     midpoint and its neighbours; every power of two and its neighbours
    for n in [64u8, 32u8] {
        let rs = ranges(n);
        assert_eq!(rs.len(), if n == 64 { 976 } else { 464 });
        let mut vals: Vec<u64> = vec![];
        for &(lo, hi) in &rs {
            let mid = lo + (hi - lo) / 2;
            for v in [lo, hi, mid, lo.saturating_sub(1), lo.saturating_add(1), hi.saturating_sub(1), hi.saturating_add(1), mid.saturating_sub(1), mid.saturating_add(1)] {
                vals.push(v);
            }
        }
        for k in 0..64 { let p = 1u64 << k; vals.extend([p, p - 1, p + 1]); }
        vals.push(u64::MAX);
        for _ in 0..(if thorough { 20000 } else { 2000 }) {
            let bits = rng.range(0, 64);
            vals.push(if bits == 64 { rng.next() } else { rng.next() & ((1u64 << bits) - 1) });
        }
        vals.sort();
        vals.dedup();
        for v in vals { emit(&mut out, sx::tag(0, vec![sx::n(n), sx::n(v)])); }
    }
    out.notes.push("layout: all 976 (n=64) and 464 (n=32) buckets visited exhaustively with bounds, neighbours, midpoints".into());

    // (B) every bucket boundary through the real strategies: as f64 (value = bound / 1024), as integer where the
    //     bound is a multiple of 1024, as Duration where it is a whole number of nanoseconds
    let rs = ranges(64);
    for (i, &(lo, hi)) in rs.iter().enumerate() {
        let mid = lo + (hi - lo) / 2;
        let st = (i % 2) as u64;
        let fl: Vec<Src> = [lo, hi, mid, hi.wrapping_add(1), lo.saturating_sub(1)].iter()
            .map(|v| Src::Obs(Observation::Floating(*v as f64 / 1024.0))).collect();
        emit(&mut out, case_close(st, Ty::F64, &fl));
        if lo % 1024 == 0 && lo > 0 {
            let iv: Vec<Src> = [lo / 1024, hi / 1024, mid / 1024, lo / 1024 - 1, (hi / 1024).saturating_add(1)].iter()
                .map(|v| Src::Obs(Observation::Unsigned(*v))).collect();
            emit(&mut out, case_close(st, Ty::U64, &iv));
        }
        if i >= 32 && i < 800 {
            let ns = |v: u64| { let ns = (v as u128 * 1_000_000 / 1024) as u64; Src::Dur(ns / 1_000_000_000, (ns % 1_000_000_000) as u32) };
            let dv: Vec<Src> = vec![ns(lo), ns(lo + 1), ns(hi), ns(hi + 1), ns(mid)];
            emit(&mut out, case_close(st, [Ty::Dur, Ty::DurMicros, Ty::DurSecs][i % 3], &dv));
        }
        // one value per bucket with an occurrence count, closed and re-aggregated: the midpoint must come back
        if i % (if thorough { 1 } else { 4 }) == 0 {
            let occ = 1 + rng.below(1 << 12);
            let x = mid as f64 / 1024.0;
            let g = vec![Src::Obs(Observation::Repeated { total: x * occ as f64, occurrences: occ })];
            emit(&mut out, case_reagg(st, 1 - st, Ty::Obs, &[g]));
        }
    }

    // (C) random multisets for every strategy and source type
    let nrand = if thorough { 8000 } else { 1500 };
    for k in 0..nrand {
        let st = rng.below(3);
        let ty = *rng.pick(&TYS);
        let wild = k % 5 == 4;
        let max = if st == 2 { 40 } else if thorough { 200 } else { 80 };
        let srcs = gen_multiset(&mut rng, ty, st, &rs, max, wild);
        emit(&mut out, case_close(st, ty, &srcs));
    }

    // (F) equality corner cases: signed zeros, NaN, adjacent floats, infinities, duplicates — mostly for
    //     sort-and-merge (equal values must merge into one run, NaN must disappear)
    for k in 0..(if thorough { 1500 } else { 300 }) {
        let x = domain_value(&mut rng, &rs);
        let palette = [0.0, -0.0, f64::NAN, 1.0, -1.0, 5e-324, -5e-324, f64::INFINITY, f64::NEG_INFINITY, x, x,
            f64::from_bits(x.to_bits() + 1), -x, f64::from_bits((-x).to_bits() + 1), f64::from_bits((-x).to_bits() - 1),
            f64::MIN_POSITIVE, -f64::MIN_POSITIVE, f64::from_bits(f64::MIN_POSITIVE.to_bits() - 1), f64::MAX, f64::MIN,
            f64::from_bits(0x7ff0_0000_0000_0001), f64::from_bits(0xfff8_0000_0000_0000)];
        let len = rng.range(2, 12) as usize;
        let ty = if k % 2 == 0 { Ty::F64 } else { Ty::Obs };
        let st = if k % 4 == 3 { rng.below(2) } else { 2 };
        let srcs: Vec<Src> = (0..len).map(|_| {
            let v = *rng.pick(&palette[..(if k % 3 == 0 { 3 } else { palette.len() })]);
            if ty == Ty::Obs && rng.chance(1, 3) {
                let occ = rng.range(1, 5);
                Src::Obs(Observation::Repeated { total: v * occ as f64, occurrences: occ })
            } else { Src::Obs(Observation::Floating(v)) }
        }).collect();
        out.count("equality_corner_cases");
        emit(&mut out, case_close(st, ty, &srcs));
    }

    // (D) re-aggregation: several closed histograms merged into one of the same or of another strategy
    for _ in 0..(nrand / 4) {
        let st1 = rng.below(3);
        let st2 = if rng.chance(2, 3) { if st1 == 2 { 2 } else { rng.below(2) } } else { rng.below(3) };
        let ty = *rng.pick(&[Ty::Obs, Ty::F64, Ty::Dur, Ty::U64, Ty::DurSecs]);
        let ng = rng.range(1, 4) as usize;
        let groups: Vec<Vec<Src>> = (0..ng).map(|_| gen_multiset(&mut rng, ty, if st1 == 2 || st2 == 2 { 2 } else { 0 }, &rs, 12, false)).collect();
        emit(&mut out, case_reagg(st1, st2, ty, &groups));
    }

    // (E) concurrent recording on the shared histogram from real threads
    for _ in 0..(if thorough { 120 } else { 24 }) {
        let ty = *rng.pick(&[Ty::F64, Ty::Obs, Ty::Dur, Ty::U64]);
        let nt = rng.range(2, if thorough { 16 } else { 8 }) as usize;
        let threads: Vec<Vec<Src>> = (0..nt).map(|_| {
            let len = rng.range(20, if thorough { 3000 } else { 600 }) as usize;
            // few distinct values per thread so that many threads hit the same slots
            let palette: Vec<Src> = (0..rng.range(1, 12)).map(|_| gen_src(&mut rng, ty, 0, &rs, false)).collect();
            (0..len).map(|_| *rng.pick(&palette)).collect()
        }).collect();
        emit(&mut out, case_conc(ty, &threads));
    }

    // (E2) many fresh shared histograms, each hit by 2-4 threads at the same moment with ONE value per thread, all in
    // different buckets: bookkeeping that is updated next to the bucket (a running maximum, an "occupied" hint) races
    // exactly here, where every recorder's value matters
    for _ in 0..(if thorough { 30000 } else { 4000 }) {
        let nt = rng.range(2, 4) as usize;
        let mut exps: Vec<u64> = (0..nt as u64).map(|t| 4 * t + rng.below(3)).collect();
        if rng.chance(1, 2) { exps.reverse(); }
        let threads: Vec<Vec<Src>> = exps.iter().map(|e| vec![Src::Obs(Observation::Unsigned(1u64 << e))]).collect();
        emit(&mut out, case_conc(Ty::U64, &threads));
    }

    out.finish("layout queries: every value is its own case; histogram cases: at least two recorded sources and a non-empty closed distribution; distinct by hash of the case");
}
