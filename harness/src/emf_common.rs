//! Shared machinery of the EMF family (C02, C03, C08, C14, C16): script entries replayed through the real
//! `Entry`/`Value` traits, formatter configurations, scripted `io::Write`, generators, wire codec.
use crate::common::{Out, Rng};
use crate::sx::{self, Sx};
use metrique_writer_core::config::{AllowSplitEntries, EntryDimensions, MetriqueValidationError};
use metrique_writer_core::format::Format;
use metrique_writer_core::sample::SampledFormat;
use metrique_writer_core::unit::{NegativeScale, PositiveScale};
use metrique_writer_core::value::MetricOptions;
use metrique_writer_core::{
    Entry, EntryConfig, EntryWriter, IoStreamError, MetricFlags, Observation, Unit, ValidationError, Value, ValueWriter,
};
use metrique_writer_format_emf::{
    Emf, HighStorageResolutionCtor, MetricDefinition, MetricDirective, NoMetricCtor, StorageResolution,
};
use metrique_writer::value::FlagConstructor;
use std::borrow::Cow;
use std::collections::VecDeque;
use std::io;
use std::time::{Duration, SystemTime, UNIX_EPOCH};

// ------------------------------------------------------------------------------------------- data

#[derive(Clone, Debug, PartialEq)]
pub enum Obs { U(u64), F(u64), R(u64, u64) } // floats as bit patterns

#[derive(Clone, Debug, PartialEq)]
pub enum UnitS { None, Named(Unit) }

#[derive(Clone, Copy, Debug, PartialEq)]
pub enum Flag { None, High, NoMetric, Foreign }

#[derive(Clone, Debug, PartialEq)]
pub enum VCall {
    Nothing,
    Str(String),
    Error(Vec<String>),
    Metric(Vec<Obs>, UnitS, Vec<(String, String)>, Flag),
}

#[derive(Clone, Debug, PartialEq)]
pub enum CItem { Split, Unroutable, EntryDims(Vec<Vec<String>>), Other }

#[derive(Clone, Debug, PartialEq)]
pub enum Item { Timestamp(i128), Config(CItem), Value(String, VCall) }

#[derive(Clone, Debug, PartialEq)]
pub struct Directive { pub dims: Vec<Vec<String>>, pub metrics: Vec<(String, UnitS, Option<u8>)>, pub namespace: String }

#[derive(Clone, Copy, Debug, PartialEq)]
pub enum Ctor { AllValidations, Builder, BuilderSkip(bool), NoValidations }

#[derive(Clone, Debug, PartialEq)]
pub struct Config {
    pub ctor: Ctor,
    pub namespaces: Vec<String>,
    pub default_dims: Vec<Vec<String>>,
    pub directives: Vec<Directive>,
    pub log_group: Option<String>,
    pub allow_ignored: bool,
}

#[derive(Clone, Copy, Debug, PartialEq)]
pub enum Resp { Accept(u64), Interrupted, Zero, Fail }

#[derive(Clone, Debug, PartialEq)]
pub struct Call {
    /// None = plain format; Some(k) = format_with_sample_rate(2^-k) (multiplicity 2^k); Some(200) = tiny rate (u64::MAX)
    pub rate_exp: Option<u32>,
    pub items: Vec<Item>,
    pub script: Vec<Resp>,
}

impl Call {
    pub fn multiplicity(&self) -> Option<u64> {
        // rate 2^-k: inv = 2^k exactly; alpha = (n+1) as f64 - inv is 1 below 2^53 (always n) and 0 from 2^53 on (always n+1)
        self.rate_exp.map(|k| if k >= 64 { u64::MAX } else if k >= 53 { (1u64 << k) + 1 } else { 1u64 << k })
    }
    pub fn rate(&self) -> Option<f32> {
        self.rate_exp.map(|k| if k >= 64 { f32::from_bits(1) } else { (2.0f32).powi(-(k as i32)) })
    }
}

// ------------------------------------------------------------------------------------------- replay through the real traits

#[derive(Debug)]
struct ForeignOpts;
impl MetricOptions for ForeignOpts {}
#[derive(Debug)]
struct OtherConfig;
impl EntryConfig for OtherConfig {}

pub struct ScriptValue<'x>(pub &'x VCall);

pub fn to_observation(o: &Obs) -> Observation {
    match *o {
        Obs::U(v) => Observation::Unsigned(v),
        Obs::F(b) => Observation::Floating(f64::from_bits(b)),
        Obs::R(t, occ) => Observation::Repeated { total: f64::from_bits(t), occurrences: occ },
    }
}

pub fn make_flags(f: Flag) -> MetricFlags<'static> {
    match f {
        Flag::None => MetricFlags::empty(),
        Flag::High => HighStorageResolutionCtor::construct(),
        Flag::NoMetric => NoMetricCtor::construct(),
        Flag::Foreign => MetricFlags::upcast(&ForeignOpts),
    }
}

impl Value for ScriptValue<'_> {
    fn write(&self, writer: impl ValueWriter) {
        match self.0 {
            VCall::Nothing => {}
            VCall::Str(s) => writer.string(s),
            VCall::Error(msgs) => {
                let mut e = ValidationError::invalid(msgs[0].clone());
                for m in &msgs[1..] {
                    e.extend(ValidationError::invalid(m.clone()));
                }
                writer.error(e)
            }
            VCall::Metric(os, u, dims, fl) => writer.metric(
                os.iter().map(to_observation),
                match u { UnitS::None => Unit::None, UnitS::Named(u) => *u },
                dims.iter().map(|(k, v)| (k.as_str(), v.as_str())),
                make_flags(*fl),
            ),
        }
    }
}

pub struct ScriptEntry {
    pub items: Vec<Item>,
    configs: Vec<Option<Box<dyn EntryConfig>>>,
    unroutable: Vec<Option<MetriqueValidationError<'static>>>,
}

fn leak(s: &str) -> &'static str {
    Box::leak(s.to_string().into_boxed_str())
}

impl ScriptEntry {
    /// `Config(Unroutable)` immediately followed by `Value("MetriqueValidationError", Str(m))` is replayed through the
    /// real `MetriqueValidationError` entry (the only public way to obtain the AllowUnroutableEntries config).
    pub fn new(items: &[Item]) -> ScriptEntry {
        let mut configs = vec![];
        let mut unroutable = vec![];
        for (i, it) in items.iter().enumerate() {
            let mut c: Option<Box<dyn EntryConfig>> = None;
            let mut u = None;
            match it {
                Item::Config(CItem::Split) => c = Some(Box::new(AllowSplitEntries::new())),
                Item::Config(CItem::Other) => c = Some(Box::new(OtherConfig)),
                Item::Config(CItem::EntryDims(d)) => {
                    let sets: Vec<Cow<'static, [Cow<'static, str>]>> = d
                        .iter()
                        .map(|s| Cow::Owned(s.iter().map(|x| Cow::Owned(x.clone())).collect::<Vec<Cow<'static, str>>>()))
                        .collect();
                    c = Some(Box::new(EntryDimensions::new(Cow::Owned(sets))));
                }
                Item::Config(CItem::Unroutable) => {
                    let msg = match items.get(i + 1) {
                        Some(Item::Value(n, VCall::Str(m))) if n == "MetriqueValidationError" => m.clone(),
                        _ => panic!("Unroutable must be followed by its MetriqueValidationError value"),
                    };
                    u = Some(MetriqueValidationError::new(leak(&msg)));
                }
                _ => {}
            }
            configs.push(c);
            unroutable.push(u);
        }
        ScriptEntry { items: items.to_vec(), configs, unroutable }
    }
}

pub fn system_time(nanos: i128) -> SystemTime {
    if nanos >= 0 {
        UNIX_EPOCH + Duration::new((nanos / 1_000_000_000) as u64, (nanos % 1_000_000_000) as u32)
    } else {
        let n = -nanos;
        UNIX_EPOCH - Duration::new((n / 1_000_000_000) as u64, (n % 1_000_000_000) as u32)
    }
}

impl Entry for ScriptEntry {
    fn write<'a>(&'a self, writer: &mut impl EntryWriter<'a>) {
        let mut skip_next = false;
        for (i, it) in self.items.iter().enumerate() {
            if skip_next {
                skip_next = false;
                continue;
            }
            match it {
                Item::Timestamp(t) => writer.timestamp(system_time(*t)),
                Item::Config(CItem::Unroutable) => {
                    self.unroutable[i].as_ref().unwrap().write(writer);
                    skip_next = true;
                }
                Item::Config(_) => writer.config(self.configs[i].as_ref().unwrap().as_ref()),
                Item::Value(name, v) => writer.value(name.as_str(), &ScriptValue(v)),
            }
        }
    }
}

// ------------------------------------------------------------------------------------------- formatter construction

pub struct ScriptedRng;
impl rand::RngCore for ScriptedRng {
    fn next_u32(&mut self) -> u32 { 0 }
    fn next_u64(&mut self) -> u64 { 0 }
    fn fill_bytes(&mut self, dst: &mut [u8]) { dst.fill(0) }
}

pub type Formatter = metrique_writer_format_emf::SampledEmf<ScriptedRng>;

pub fn unit_of(u: &UnitS) -> Unit {
    match u { UnitS::None => Unit::None, UnitS::Named(u) => *u }
}

/// `Emf::all_validations` / `Emf::no_validations` take no further options: a configuration with extra namespaces,
/// directives, a log group or ignored dimensions can only be built through the builder chain.
pub fn effective_ctor(cfg: &Config) -> Ctor {
    let plain = cfg.namespaces.len() == 1 && cfg.directives.is_empty() && cfg.log_group.is_none() && !cfg.allow_ignored;
    match cfg.ctor {
        Ctor::AllValidations if !plain => Ctor::Builder,
        Ctor::NoValidations if !plain => Ctor::BuilderSkip(true),
        c => c,
    }
}

pub fn build(cfg: &Config) -> Formatter {
    let ns0 = cfg.namespaces[0].clone();
    let dd = cfg.default_dims.clone();
    let extend = |mut b: metrique_writer_format_emf::EmfBuilder| {
        for ns in &cfg.namespaces[1..] {
            b = b.add_namespace(ns.clone());
        }
        for d in &cfg.directives {
            let dims: Vec<Vec<&str>> = d.dims.iter().map(|s| s.iter().map(|x| x.as_str()).collect()).collect();
            let metrics: Vec<MetricDefinition<'_>> = d
                .metrics
                .iter()
                .map(|(n, u, sr)| MetricDefinition {
                    name: n,
                    unit: unit_of(u),
                    storage_resolution: sr.map(|r| if r == 1 { StorageResolution::Second } else { StorageResolution::Minute }),
                })
                .collect();
            b = b.directive(MetricDirective { dimensions: dims, metrics, namespace: &d.namespace });
        }
        if let Some(g) = &cfg.log_group {
            b = b.log_group_name(g.clone());
        }
        b.allow_ignored_dimensions(cfg.allow_ignored)
    };
    let emf = match effective_ctor(cfg) {
        Ctor::AllValidations => Emf::all_validations(ns0, dd),
        Ctor::NoValidations => Emf::no_validations(ns0, dd),
        Ctor::Builder => extend(Emf::builder(ns0, dd)).build(),
        Ctor::BuilderSkip(b) => extend(Emf::builder(ns0, dd)).skip_all_validations(b).build(),
    };
    emf.with_sampling_and_rng(ScriptedRng)
}

// ------------------------------------------------------------------------------------------- scripted writer

pub struct ScriptWriter {
    pub script: VecDeque<Resp>,
    pub received: Vec<u8>,
    pub calls: usize,
}

impl ScriptWriter {
    pub fn new(script: &[Resp]) -> Self {
        ScriptWriter { script: script.iter().cloned().collect(), received: vec![], calls: 0 }
    }
}

impl io::Write for ScriptWriter {
    fn write(&mut self, buf: &[u8]) -> io::Result<usize> {
        self.write_vectored(&[io::IoSlice::new(buf)])
    }
    fn write_vectored(&mut self, bufs: &[io::IoSlice<'_>]) -> io::Result<usize> {
        self.calls += 1;
        let total: usize = bufs.iter().map(|b| b.len()).sum();
        match self.script.pop_front() {
            None => {
                for b in bufs { self.received.extend_from_slice(b); }
                Ok(total)
            }
            Some(Resp::Accept(k)) => {
                let mut n = std::cmp::min(std::cmp::max(1, k as usize), total);
                let taken = n;
                for b in bufs {
                    let t = std::cmp::min(n, b.len());
                    self.received.extend_from_slice(&b[..t]);
                    n -= t;
                    if n == 0 { break; }
                }
                Ok(taken)
            }
            Some(Resp::Interrupted) => Err(io::ErrorKind::Interrupted.into()),
            Some(Resp::Zero) => Ok(0),
            Some(Resp::Fail) => Err(io::ErrorKind::BrokenPipe.into()),
        }
    }
    fn flush(&mut self) -> io::Result<()> { Ok(()) }
}

// ------------------------------------------------------------------------------------------- execution

#[derive(Clone, Debug, PartialEq)]
pub enum Res { Ok, Validation(Vec<String>), Io(bool), Panicked }

/// Unescape a Rust `{:?}` list of strings: `["a", "b\"c"]`.
pub fn parse_debug_list(s: &str) -> Vec<String> {
    let c: Vec<char> = s.chars().collect();
    let mut out = vec![];
    let mut i = 0;
    while i < c.len() {
        if c[i] == '"' {
            i += 1;
            let mut cur = String::new();
            while c[i] != '"' {
                if c[i] == '\\' {
                    i += 1;
                    match c[i] {
                        'n' => cur.push('\n'),
                        'r' => cur.push('\r'),
                        't' => cur.push('\t'),
                        '0' => cur.push('\0'),
                        '\\' => cur.push('\\'),
                        '"' => cur.push('"'),
                        '\'' => cur.push('\''),
                        'u' => {
                            i += 2; // skip u{
                            let mut h = String::new();
                            while c[i] != '}' { h.push(c[i]); i += 1; }
                            cur.push(char::from_u32(u32::from_str_radix(&h, 16).unwrap()).unwrap());
                        }
                        other => cur.push(other),
                    }
                    i += 1;
                } else {
                    cur.push(c[i]);
                    i += 1;
                }
            }
            out.push(cur);
        }
        i += 1;
    }
    out
}

pub fn exec_call(f: &mut Formatter, call: &Call) -> (Res, Vec<u8>) {
    let entry = ScriptEntry::new(&call.items);
    let mut w = ScriptWriter::new(&call.script);
    let r = crate::common::catch(|| match call.rate() {
        None => f.format(&entry, &mut w),
        Some(rate) => f.format_with_sample_rate(&entry, &mut w, rate),
    });
    let res = match r {
        None => Res::Panicked,
        Some(Ok(())) => Res::Ok,
        Some(Err(IoStreamError::Validation(e))) => Res::Validation(parse_debug_list(&format!("{:?}", e))),
        Some(Err(IoStreamError::Io(e))) => Res::Io(e.kind() == io::ErrorKind::WriteZero),
    };
    (res, w.received)
}

pub fn has_timestamp(items: &[Item]) -> bool {
    items.iter().any(|i| matches!(i, Item::Timestamp(_)))
}

/// Timestamp of the first emitted line, as the formatter printed it (the model's `now` oracle when the entry has none).
pub fn first_timestamp(out: &[u8]) -> u128 {
    // The metadata block ends `],"Timestamp":<digits>}` or `],"LogGroupName":<json string>,"Timestamp":<digits>}`;
    // `],"` cannot occur inside a JSON string (quotes are escaped) and first occurs there.
    let find = |hay: &[u8], pat: &[u8]| hay.windows(pat.len()).position(|w| w == pat);
    let digits = |s: &[u8]| s.iter().take_while(|b| b.is_ascii_digit()).fold(0u128, |a, b| a * 10 + (*b - b'0') as u128);
    let p1 = find(out, b"],\"Timestamp\":");
    let p2 = find(out, b"],\"LogGroupName\":\"");
    match (p1, p2) {
        (Some(a), None) => return digits(&out[a + 14..]),
        (Some(a), Some(b)) if a < b => return digits(&out[a + 14..]),
        (_, Some(b)) => {
            let r = &out[b + 18..];
            let mut i = 0;
            while i < r.len() && r[i] != b'"' { if r[i] == b'\\' { i += 1; } i += 1; }
            if let Some(r2) = r.get(i + 1..).and_then(|x| x.strip_prefix(b",\"Timestamp\":")) {
                return digits(r2);
            }
        }
        _ => {}
    }
    0
}

/// dtoa text of every float the formatter may print for these items (the model's fmt_float oracle).
pub fn float_table(items: &[Item]) -> Vec<(u64, String)> {
    let mut t: Vec<(u64, String)> = vec![];
    let mut add = |v: f64| {
        let v = v.clamp(-f64::MAX, f64::MAX);
        if v.is_finite() && !t.iter().any(|(b, _)| *b == v.to_bits()) {
            let mut buf = dtoa::Buffer::new();
            t.push((v.to_bits(), buf.format_finite(v).to_string()));
        }
    };
    for it in items {
        if let Item::Value(_, VCall::Metric(os, ..)) = it {
            for o in os {
                match *o {
                    Obs::F(b) => add(f64::from_bits(b)),
                    Obs::R(t, occ) => add(if occ == 0 { 0.0 } else { f64::from_bits(t) / occ as f64 }),
                    Obs::U(_) => {}
                }
            }
        }
    }
    t
}

/// The two hypotheses on the float printer, checked on every literal that flows through:
/// the text is a JSON number and denotes a decimal that rounds to the float.
pub fn check_float_text(bits: u64, text: &str) -> bool {
    let json_ok = serde_json::from_str::<serde_json::Value>(text).map(|v| v.is_number()).unwrap_or(false);
    json_ok && text.parse::<f64>().map(|v| v.to_bits() == bits).unwrap_or(false)
}

// ------------------------------------------------------------------------------------------- wire codec

fn s(x: &str) -> Sx { sx::b(x.as_bytes()) }
fn strs(v: &[String]) -> Sx { Sx::L(v.iter().map(|x| s(x)).collect()) }
fn enc_unit(u: &UnitS) -> Sx {
    match u { UnitS::None => Sx::L(vec![]), UnitS::Named(u) => if *u == Unit::None { Sx::L(vec![]) } else { Sx::L(vec![s(u.name())]) } }
}
fn enc_obs(o: &Obs) -> Sx {
    match *o { Obs::U(v) => sx::tag(0, vec![sx::n(v)]), Obs::F(b) => sx::tag(1, vec![sx::n(b)]), Obs::R(t, c) => sx::tag(2, vec![sx::n(t), sx::n(c)]) }
}
fn enc_vcall(v: &VCall) -> Sx {
    match v {
        VCall::Nothing => sx::tag(0, vec![]),
        VCall::Str(x) => sx::tag(1, vec![s(x)]),
        VCall::Error(m) => sx::tag(2, vec![strs(m)]),
        VCall::Metric(os, u, dims, fl) => sx::tag(3, vec![
            Sx::L(os.iter().map(enc_obs).collect()),
            enc_unit(u),
            Sx::L(dims.iter().map(|(k, v)| Sx::L(vec![s(k), s(v)])).collect()),
            sx::n(*fl as u8),
        ]),
    }
}
pub fn enc_item(i: &Item) -> Sx {
    match i {
        Item::Timestamp(t) => sx::tag(0, vec![sx::z(*t)]),
        Item::Config(c) => sx::tag(1, vec![match c {
            CItem::Split => sx::tag(0, vec![]),
            CItem::Unroutable => sx::tag(1, vec![]),
            CItem::EntryDims(d) => sx::tag(2, vec![Sx::L(d.iter().map(|x| strs(x)).collect())]),
            CItem::Other => sx::tag(3, vec![]),
        }]),
        Item::Value(n, v) => sx::tag(2, vec![s(n), enc_vcall(v)]),
    }
}
pub fn enc_config(c: &Config) -> Sx {
    let (code, b) = match effective_ctor(c) { Ctor::AllValidations => (0, false), Ctor::Builder => (1, false), Ctor::BuilderSkip(b) => (2, b), Ctor::NoValidations => (3, false) };
    Sx::L(vec![
        Sx::L(vec![sx::n(code as u8), sx::boolean(b), sx::boolean(cfg!(debug_assertions))]),
        strs(&c.namespaces),
        Sx::L(c.default_dims.iter().map(|x| strs(x)).collect()),
        Sx::L(c.directives.iter().map(|d| Sx::L(vec![
            Sx::L(d.dims.iter().map(|x| strs(x)).collect()),
            Sx::L(d.metrics.iter().map(|(n, u, sr)| Sx::L(vec![s(n), enc_unit(u), sx::opt(sr.map(|r| sx::n(r)))])).collect()),
            s(&d.namespace),
        ])).collect()),
        sx::opt(c.log_group.as_ref().map(|g| s(g))),
        sx::boolean(c.allow_ignored),
    ])
}
pub fn enc_resp(r: &Resp) -> Sx {
    match *r { Resp::Accept(k) => sx::tag(0, vec![sx::n(k)]), Resp::Interrupted => sx::tag(1, vec![]), Resp::Zero => sx::tag(2, vec![]), Resp::Fail => sx::tag(3, vec![]) }
}
pub fn enc_call(c: &Call, now_ms: u128, ftab: &[(u64, String)]) -> Sx {
    Sx::L(vec![
        sx::opt(c.multiplicity().map(|m| sx::n(m))),
        Sx::L(c.items.iter().map(enc_item).collect()),
        sx::n(now_ms),
        Sx::L(ftab.iter().map(|(b, t)| Sx::L(vec![sx::n(*b), s(t)])).collect()),
        Sx::L(c.script.iter().map(enc_resp).collect()),
        sx::opt(c.rate_exp.map(|k| sx::n(k))),
    ])
}
/// A validation message is compared by the field it blames, not by its wording (no property fixes the wording):
/// "for `NAME`: text" becomes NAME (up to the first back-tick), any other message the empty string (Emf/Codec.v `blamed`).
pub fn blamed(m: &[u8]) -> Vec<u8> {
    match m.strip_prefix(b"for `") {
        Some(r) => r.iter().take_while(|&&c| c != b'`').cloned().collect(),
        None => vec![],
    }
}
pub fn enc_res(r: &Res, out: &[u8], sorted: bool) -> Sx {
    let rr = match r {
        Res::Ok => Sx::L(vec![sx::n(0u8)]),
        Res::Validation(m) => { let mut m: Vec<Vec<u8>> = m.iter().map(|x| blamed(x.as_bytes())).collect(); m.sort(); Sx::L(vec![sx::n(1u8), Sx::L(m.into_iter().map(Sx::B).collect())]) }
        Res::Io(z) => Sx::L(vec![sx::n(2u8), sx::boolean(*z)]),
        Res::Panicked => Sx::L(vec![sx::n(3u8)]),
    };
    let o = if sorted {
        let mut lines: Vec<Vec<u8>> = out.split_inclusive(|&b| b == b'\n').map(|l| l.to_vec()).collect();
        lines.sort();
        Sx::L(lines.into_iter().map(Sx::B).collect())
    } else { Sx::B(out.to_vec()) };
    Sx::L(vec![rr, o])
}

fn st(x: &Sx) -> String { String::from_utf8(x.bytes().to_vec()).unwrap() }
fn dstrs(x: &Sx) -> Vec<String> { x.list().iter().map(st).collect() }
fn unit_by_name(n: &str) -> Unit {
    for u in all_units() { if u.name() == n && u != Unit::None { return u; } }
    Unit::Custom(leak(n))
}
fn dec_unit(x: &Sx) -> UnitS { match x.list().first() { None => UnitS::None, Some(n) => UnitS::Named(unit_by_name(&st(n))) } }
fn dec_vcall(x: &Sx) -> VCall {
    match x.tag() {
        1 => VCall::Str(st(x.arg(0))),
        2 => VCall::Error(dstrs(x.arg(0))),
        3 => VCall::Metric(
            x.arg(0).list().iter().map(|o| match o.tag() { 0 => Obs::U(o.arg(0).num() as u64), 1 => Obs::F(o.arg(0).num() as u64), _ => Obs::R(o.arg(0).num() as u64, o.arg(1).num() as u64) }).collect(),
            dec_unit(x.arg(1)),
            x.arg(2).list().iter().map(|p| (st(&p.list()[0]), st(&p.list()[1]))).collect(),
            match x.arg(3).num() { 1 => Flag::High, 2 => Flag::NoMetric, 3 => Flag::Foreign, _ => Flag::None },
        ),
        _ => VCall::Nothing,
    }
}
pub fn dec_item(x: &Sx) -> Item {
    match x.tag() {
        0 => Item::Timestamp(match x.arg(0) { Sx::A(neg, m) => if *neg { -(*m as i128) } else { *m as i128 }, _ => 0 }),
        1 => Item::Config(match x.arg(0).tag() { 0 => CItem::Split, 1 => CItem::Unroutable, 2 => CItem::EntryDims(x.arg(0).arg(0).list().iter().map(dstrs).collect()), _ => CItem::Other }),
        _ => Item::Value(st(x.arg(0)), dec_vcall(x.arg(1))),
    }
}
pub fn dec_config(x: &Sx) -> Config {
    let l = x.list();
    let c = l[0].list();
    Config {
        ctor: match c[0].num() { 0 => Ctor::AllValidations, 1 => Ctor::Builder, 2 => Ctor::BuilderSkip(c[1].num() != 0), _ => Ctor::NoValidations },
        namespaces: dstrs(&l[1]),
        default_dims: l[2].list().iter().map(dstrs).collect(),
        directives: l[3].list().iter().map(|d| { let d = d.list(); Directive {
            dims: d[0].list().iter().map(dstrs).collect(),
            metrics: d[1].list().iter().map(|m| { let m = m.list(); (st(&m[0]), dec_unit(&m[1]), m[2].list().first().map(|r| r.num() as u8)) }).collect(),
            namespace: st(&d[2]) } }).collect(),
        log_group: l[4].list().first().map(st),
        allow_ignored: l[5].num() != 0,
    }
}
pub fn dec_call(x: &Sx) -> Call {
    let l = x.list();
    Call {
        rate_exp: l.get(5).and_then(|r| r.list().first()).map(|k| k.num() as u32),
        items: l[1].list().iter().map(dec_item).collect(),
        script: l[4].list().iter().map(|r| match r.tag() { 0 => Resp::Accept(r.arg(0).num() as u64), 1 => Resp::Interrupted, 2 => Resp::Zero, _ => Resp::Fail }).collect(),
    }
}

/// One case = one formatter configuration and a sequence of calls on it.
pub struct Case { pub cfg: Config, pub calls: Vec<Call>, pub sorted: bool }

pub fn dec_case(x: &Sx) -> Case {
    let l = x.list();
    Case { cfg: dec_config(&l[0]), calls: l[1].list().iter().map(dec_call).collect(), sorted: l[2].num() != 0 }
}

/// Runs a case on the real formatter; returns (case line for the model, implementation output, per-call results).
pub fn exec_case(case: &Case, out: &mut Out) -> (Sx, Sx, Vec<(Res, Vec<u8>)>) {
    let mut f = build(&case.cfg);
    let mut calls_sx = vec![];
    let mut res_sx = vec![];
    let mut raw = vec![];
    for call in &case.calls {
        let ms = |t: SystemTime| t.duration_since(UNIX_EPOCH).map(|d| d.as_millis()).unwrap_or(0);
        let t_before = ms(SystemTime::now());
        let (res, bytes) = exec_call(&mut f, call);
        let t_after = ms(SystemTime::now());
        // an entry without a timestamp is stamped with the wall clock: the model takes what was printed as its
        // `now`, so the window in which the call ran is checked here
        if !has_timestamp(&call.items) && !bytes.is_empty() && bytes.contains(&b'\n') {
            let now = first_timestamp(&bytes);
            if now + 1 < t_before || now > t_after + 1 {
                out.fail(format!("entry without timestamp stamped {now} ms, but the call ran between {t_before} and {t_after} ms since the epoch"),
                         &Sx::L(vec![enc_config(&case.cfg), Sx::L(vec![enc_call(call, now, &float_table(&call.items))]), sx::boolean(case.sorted)]));
            }
        }
        let ftab = float_table(&call.items);
        for (b, t) in &ftab {
            if !check_float_text(*b, t) {
                out.fail(format!("float printer hypothesis violated (tooling): bits {b:x} text {t}"), &Sx::L(vec![]));
            }
        }
        let now = if has_timestamp(&call.items) { 0 } else { first_timestamp(&bytes) };
        calls_sx.push(enc_call(call, now, &ftab));
        res_sx.push(enc_res(&res, &bytes, case.sorted));
        raw.push((res, bytes));
    }
    (Sx::L(vec![enc_config(&case.cfg), Sx::L(calls_sx), sx::boolean(case.sorted)]), Sx::L(res_sx), raw)
}

// ------------------------------------------------------------------------------------------- generators

pub fn all_units() -> Vec<Unit> {
    let mut v = vec![Unit::None, Unit::Count, Unit::Percent];
    for s in [NegativeScale::Micro, NegativeScale::Milli, NegativeScale::One] { v.push(Unit::Second(s)); }
    for s in [PositiveScale::One, PositiveScale::Kilo, PositiveScale::Mega, PositiveScale::Giga, PositiveScale::Tera] {
        v.push(Unit::Byte(s)); v.push(Unit::BytePerSecond(s)); v.push(Unit::Bit(s)); v.push(Unit::BitPerSecond(s));
    }
    v
}

const NASTY: &[&str] = &["\"", "\\", "\n", "\r", "\t", "\u{0}", "\u{1}", "\u{8}", "\u{c}", "\u{1f}", "\u{7f}", "é", "€", "😀", "/", "'", " ", "{", "}", "[", "]", ":", ",", "\u{2028}", "a", "b", "Z", "0", "_"];

pub const JSONISH: &[&str] = &["\":", "\",", "\"}", "\\\":", "{\"a\":1}", "],\"Metrics\":[", "\"Name\":", "}\n{", "\",\"Unit\":\"", "\\u0041", "\\", "\\\\\"", "a\":p99", "\"_aws\":{"];
pub fn gen_string(rng: &mut Rng) -> String {
    match rng.below(12) {
        0 => String::new(),
        1 => { let n = rng.range(200, 1200) as usize; (0..n).map(|i| if i % 97 == 5 { '"' } else { (b'a' + (i % 26) as u8) as char }).collect() }
        2..=4 => { let n = rng.range(1, 8); (0..n).map(|_| *rng.pick(NASTY)).collect() }
        // text that looks like the JSON around it: a scanner that looks for a delimiter inside already-escaped text,
        // or splices one buffer into another, trips over these
        5 => { let n = rng.range(1, 3); (0..n).map(|_| *rng.pick(JSONISH)).collect::<Vec<_>>().join(if rng.chance(1, 2) { "" } else { "x" }) }
        _ => { let n = rng.range(1, 10); (0..n).map(|_| (b'a' + rng.below(26) as u8) as char).collect() }
    }
}

/// Field / dimension names: a small pool (so collisions happen) plus occasional arbitrary strings.
pub fn gen_name(rng: &mut Rng) -> String {
    const POOL: &[&str] = &["a", "b", "c", "Op", "Lat", "k", "k2", "Region", "AZ", "Timestamp", "_aws", "", "Name", "x\"y", "é"];
    match rng.below(10) {
        0 => gen_string(rng),
        1 => POOL[rng.range(9, POOL.len() as u64 - 1) as usize].to_string(),
        _ => POOL[rng.below(9) as usize].to_string(),
    }
}
pub fn gen_safe_name(rng: &mut Rng, avoid: &[String]) -> String {
    for _ in 0..50 {
        let n = format!("{}{}", rng.pick(&["m", "s", "Lat", "Op", "f", "é", "q\"", "z\\", "lat\":p", "v\",", "{\"a\":"]), rng.below(40));
        if !avoid.contains(&n) { return n; }
    }
    format!("uniq{}", rng.next())
}

pub fn gen_obs(rng: &mut Rng) -> Obs {
    let fin = |rng: &mut Rng| -> f64 {
        match rng.below(8) {
            0 => 0.0, 1 => -0.0, 2 => 1.5, 3 => -2.25e-7, 4 => 1e300, 5 => f64::MAX, 6 => 5e-324,
            _ => f64::from_bits(rng.next() & 0x7fef_ffff_ffff_ffff | (rng.below(2) << 63)),
        }
    };
    match rng.below(14) {
        0..=2 => Obs::U(rng.below(1000)),
        3 => Obs::U(*rng.pick(&[0, u64::MAX, 1 << 53, (1 << 53) + 1, u64::MAX - 1])),
        4..=6 => Obs::F(fin(rng).to_bits()),
        7 => Obs::F(f64::NAN.to_bits()),
        8 => Obs::F(if rng.chance(1, 2) { f64::INFINITY.to_bits() } else { f64::NEG_INFINITY.to_bits() }),
        9 => Obs::F(0x7ff8_0000_0000_0001 | (rng.below(2) << 63)),
        10 => Obs::R(fin(rng).to_bits(), 0),
        11 => Obs::R(rng.pick(&[f64::NAN, f64::INFINITY, f64::NEG_INFINITY, f64::MAX]).to_bits(), rng.range(0, 3)),
        12 => Obs::R(fin(rng).to_bits(), *rng.pick(&[1, 2, 3, 1 << 40, u64::MAX, (1 << 53) + 1])),
        _ => Obs::R((rng.below(100000) as f64 / 8.0).to_bits(), rng.range(1, 50)),
    }
}

pub fn gen_obs_list(rng: &mut Rng) -> Vec<Obs> {
    let n = match rng.below(10) { 0 => 0, 1..=4 => 1, 5..=6 => 2, _ => rng.range(3, 6) };
    (0..n).map(|_| gen_obs(rng)).collect()
}

pub fn gen_unit(rng: &mut Rng) -> UnitS {
    match rng.below(6) {
        0..=1 => UnitS::None,
        2 => UnitS::Named(Unit::Custom(leak(*rng.pick(&["None", "Widgets", "we\"ird", "", "Seconds"])))),
        _ => { let u = *rng.pick(&all_units()); if u == Unit::None { UnitS::None } else { UnitS::Named(u) } }
    }
}

pub fn gen_flag(rng: &mut Rng) -> Flag {
    match rng.below(8) { 0 => Flag::High, 1 => Flag::NoMetric, 2 => Flag::Foreign, _ => Flag::None }
}

pub struct GenOpts {
    /// probability (in 1/16) of injecting each kind of validation defect
    pub defects: u64,
    pub allow_scripts: bool,
    pub allow_split: bool,
}

pub fn gen_config(rng: &mut Rng) -> Config {
    let ctor = match rng.below(8) { 0 => Ctor::NoValidations, 1 => Ctor::Builder, 2 => Ctor::BuilderSkip(true), 3 => Ctor::BuilderSkip(false), _ => Ctor::AllValidations };
    let nns = match rng.below(6) { 0 => 2, 1 => 3, _ => 1 };
    let namespaces = (0..nns).map(|i| if rng.chance(1, 6) { gen_string(rng) } else { format!("Ns{i}") }).collect();
    let nsets = match rng.below(6) { 0 => 2, 1 => 3, _ => 1 };
    let pool = ["Region", "AZ", "k", "Op"];
    let default_dims: Vec<Vec<String>> = (0..nsets).map(|_| { let n = rng.below(3); (0..n).map(|_| rng.pick(&pool).to_string()).collect() }).collect();
    let ndir = match rng.below(8) { 0 => 1, 1 => 2, _ => 0 };
    let directives = (0..ndir).map(|_| Directive {
        dims: (0..rng.below(3)).map(|_| (0..rng.below(3)).map(|_| gen_name(rng)).collect()).collect(),
        metrics: (0..rng.below(3)).map(|_| (gen_name(rng), gen_unit(rng), match rng.below(3) { 0 => Some(1), 1 => Some(60), _ => None })).collect(),
        namespace: gen_string(rng),
    }).collect();
    Config { ctor, namespaces, default_dims, directives, log_group: if rng.chance(1, 5) { Some(gen_string(rng)) } else { None }, allow_ignored: rng.chance(1, 6) }
}

/// A mostly valid entry for `cfg` (unique names, all declared dimensions present, timestamp) with optional defects.
pub fn gen_items(rng: &mut Rng, cfg: &Config, o: &GenOpts) -> Vec<Item> {
    let mut items: Vec<Item> = vec![];
    let mut used: Vec<String> = vec![];
    let split = o.allow_split && rng.chance(1, 3);
    if rng.chance(7, 8) { items.push(Item::Timestamp(match rng.below(6) { 0 => -(rng.below(1_000_000_000_000) as i128), 1 => 0, 2 => 999_999, _ => rng.below(4_000_000_000_000_000_000) as i128 })); }
    if split { items.push(Item::Config(CItem::Split)); }
    if rng.chance(1, 10) { items.push(Item::Config(CItem::Other)); }
    let mut dim_names: Vec<String> = cfg.default_dims.concat();
    if rng.chance(1, 6) {
        let sets: Vec<Vec<String>> = (0..rng.range(1, 2)).map(|_| (0..rng.below(3)).map(|_| rng.pick(&["Op", "Stage", "AZ"]).to_string()).collect()).collect();
        dim_names.extend(sets.concat());
        items.push(Item::Config(CItem::EntryDims(sets)));
    }
    dim_names.sort(); dim_names.dedup();
    // declared dimensions as string values
    for d in &dim_names {
        if d.is_empty() || d == "_aws" { continue; }
        items.push(Item::Value(d.clone(), VCall::Str(gen_string(rng))));
        used.push(d.clone());
    }
    let n = rng.range(0, 6);
    for _ in 0..n {
        let name = gen_safe_name(rng, &used);
        used.push(name.clone());
        let v = match rng.below(10) {
            0 => VCall::Nothing,
            1..=2 => VCall::Str(gen_string(rng)),
            _ => {
                let dims = if split && rng.chance(1, 2) {
                    (0..rng.range(1, 3)).map(|_| (rng.pick(&["d1", "d2", "Stage"]).to_string(), rng.pick(&["x", "y", "z\"", ""]).to_string())).collect()
                } else { vec![] };
                VCall::Metric(gen_obs_list(rng), gen_unit(rng), dims, gen_flag(rng))
            }
        };
        items.push(Item::Value(name, v));
    }
    // defects
    let d = o.defects;
    if rng.chance(d, 16) { let i = rng.below(items.len() as u64 + 1) as usize; items.insert(i, Item::Timestamp(5)); }
    if rng.chance(d, 16) && !used.is_empty() { let nm = rng.pick(&used).clone(); let i = rng.below(items.len() as u64 + 1) as usize; items.insert(i, Item::Value(nm, if rng.chance(1, 2) { VCall::Str("dup".into()) } else { VCall::Metric(vec![Obs::U(1)], UnitS::None, vec![], Flag::None) })); }
    if rng.chance(d, 16) { let i = rng.below(items.len() as u64 + 1) as usize; items.insert(i, Item::Value(rng.pick(&["", "_aws"]).to_string(), VCall::Str("v".into()))); }
    if rng.chance(d, 16) && !dim_names.is_empty() { let nm = rng.pick(&dim_names).clone(); items.retain(|it| !matches!(it, Item::Value(n, _) if *n == nm)); if rng.chance(1, 2) { items.push(Item::Value(nm, VCall::Metric(vec![Obs::U(3)], UnitS::None, vec![], Flag::None))); } }
    if rng.chance(d, 16) { items.push(Item::Value(gen_safe_name(rng, &used), VCall::Metric(vec![Obs::U(1)], UnitS::None, vec![("k".into(), "v".into())], Flag::None))); }
    if rng.chance(d, 16) { let i = rng.below(items.len() as u64 + 1) as usize; items.insert(i, Item::Config(CItem::EntryDims(match rng.below(3) { 0 => vec![], 1 => vec![vec!["Op".into()]], _ => vec![vec![]] }))); }
    if rng.chance(d, 16) { items.push(Item::Value(gen_safe_name(rng, &used), VCall::Error((0..rng.range(1, 2)).map(|_| gen_string(rng)).collect()))); }
    if rng.chance(d, 32) { items.push(Item::Value(gen_name(rng), VCall::Metric(gen_obs_list(rng), gen_unit(rng), vec![(gen_name(rng), gen_string(rng))], gen_flag(rng)))); }
    if rng.chance(1, 24) {
        items.push(Item::Config(CItem::Unroutable));
        items.push(Item::Value("MetriqueValidationError".into(), VCall::Str(gen_string(rng))));
    }
    items
}

pub fn gen_script(rng: &mut Rng, approx_len: usize) -> Vec<Resp> {
    let n = rng.range(1, 5);
    (0..n).map(|_| match rng.below(8) {
        0 => Resp::Interrupted,
        1 => Resp::Zero,
        2 => Resp::Fail,
        3 => Resp::Accept(1),
        _ => Resp::Accept(rng.range(1, std::cmp::max(2, approx_len as u64 + 10))),
    }).collect()
}

pub fn gen_rate(rng: &mut Rng) -> Option<u32> {
    match rng.below(10) { 0 => Some(0), 1 => Some(1), 2 => Some(rng.range(2, 62) as u32), 3 => Some(200), _ => None }
}

pub fn count_split_sets(items: &[Item]) -> usize {
    let mut keys: Vec<Vec<(String, String)>> = vec![];
    for it in items { if let Item::Value(_, VCall::Metric(_, _, d, _)) = it { if !d.is_empty() { let mut k = d.clone(); k.sort(); if !keys.contains(&k) { keys.push(k); } } } }
    keys.len()
}
