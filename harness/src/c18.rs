//! C18 — stopwatch / timer operation sequences over a manually advanced time source.
use crate::common::{Ctx, Out, Rng};
use crate::sx::{self, Sx};
use metrique::timers::{OwnedTimerGuard, Stopwatch, Timer, TimerGuard};
use metrique_core::CloseValue;
use metrique_timesource::{TimeSource, fakes::ManuallyAdvancedTimeSource};
use std::time::{Duration, UNIX_EPOCH};

#[derive(Clone, Copy, Debug, PartialEq)]
enum Op { Adv(u64), StartB, StartO, Stop(usize), Overwrite(usize), Discard(usize), Clear }

fn enc_op(o: &Op) -> Sx {
    match *o {
        Op::Adv(d) => sx::tag(0, vec![sx::n(d)]),
        Op::StartB => sx::tag(1, vec![]),
        Op::StartO => sx::tag(2, vec![]),
        Op::Stop(g) => sx::tag(3, vec![sx::n(g as u64)]),
        Op::Overwrite(g) => sx::tag(4, vec![sx::n(g as u64)]),
        Op::Discard(g) => sx::tag(5, vec![sx::n(g as u64)]),
        Op::Clear => sx::tag(6, vec![]),
    }
}
fn dec_op(x: &Sx) -> Op {
    match x.tag() {
        0 => Op::Adv(x.arg(0).num() as u64),
        1 => Op::StartB,
        2 => Op::StartO,
        3 => Op::Stop(x.arg(0).num() as usize),
        4 => Op::Overwrite(x.arg(0).num() as usize),
        5 => Op::Discard(x.arg(0).num() as usize),
        _ => Op::Clear,
    }
}

enum G { B(TimerGuard<'static>), O(OwnedTimerGuard), Gone }

/// Runs a stopwatch history on the real implementation. While a borrowed guard is alive the stopwatch
/// itself cannot be touched (Rust's borrow rule; the generator respects it), so those positions are
/// reported as -1 ("not observable"), exactly as the model's codec masks them.
fn exec_stopwatch(ops: &[Op], unwinding: bool, placement: u64) -> Sx {
    let ts = ManuallyAdvancedTimeSource::at_time(UNIX_EPOCH);
    with_ambient(&TimeSource::custom(ts.clone()), placement, |explicit| exec_stopwatch_in(ops, unwinding, &ts, explicit))
}
fn exec_stopwatch_in(ops: &[Op], unwinding: bool, ts: &ManuallyAdvancedTimeSource, explicit: Option<TimeSource>) -> Sx {
    let sw: *mut Stopwatch = Box::into_raw(Box::new(match explicit { Some(src) => Stopwatch::new_from_timesource(src), None => Stopwatch::new() }));
    let mut guards: Vec<G> = vec![];
    let mut borrowed: Option<usize> = None;
    let mut obs = vec![];
    for o in ops {
        match *o {
            Op::Adv(d) => ts.update_instant(Duration::from_nanos(d)),
            Op::StartB => {
                assert!(borrowed.is_none());
                // SAFETY: the generator never touches the stopwatch while this guard lives.
                let g: TimerGuard<'static> = unsafe { (*sw).start() };
                borrowed = Some(guards.len());
                guards.push(G::B(g));
            }
            Op::StartO => {
                assert!(borrowed.is_none());
                let g = unsafe { (*sw).start_owned() };
                guards.push(G::O(g));
            }
            Op::Stop(i) | Op::Overwrite(i) | Op::Discard(i) => {
                if i < guards.len() {
                    let g = std::mem::replace(&mut guards[i], G::Gone);
                    if borrowed == Some(i) { borrowed = None; }
                    match (g, *o) {
                        (G::B(g), Op::Stop(_)) => { if i % 2 == 0 && !unwinding { g.stop(); } else { crate::common::drop_placed(g, unwinding); } }
                        (G::B(g), Op::Overwrite(_)) => g.overwrite(),
                        (G::B(g), Op::Discard(_)) => g.discard(),
                        (G::O(g), Op::Stop(_)) => { if i % 2 == 0 && !unwinding { g.stop(); } else { crate::common::drop_placed(g, unwinding); } }
                        (G::O(g), Op::Overwrite(_)) => g.overwrite(),
                        (G::O(g), Op::Discard(_)) => g.discard(),
                        _ => {}
                    }
                }
            }
            Op::Clear => { assert!(borrowed.is_none()); unsafe { (*sw).clear() } }
        }
        if borrowed.is_some() {
            obs.push(sx::z(-1));
        } else {
            let v: Option<Duration> = unsafe { (&*sw).close() };
            obs.push(sx::opt(v.map(|d| sx::n(d.as_nanos()))));
        }
    }
    drop(guards);
    unsafe { drop(Box::from_raw(sw)) };
    Sx::L(obs)
}

/// Where the object under test gets its time source from (last case argument, not read by the model):
/// 0 = handed over explicitly; 1 = the ambient source: a thread-local override in force for the whole history;
/// 2 = the same, created after an inner override by another clock has come and gone (its guard dropped);
/// 3 = the same, the inner override being a `with_time_source` closure that has returned;
/// 4, 5 = a runtime-scoped override of the current tokio runtime (see below).
fn with_ambient<T>(src: &TimeSource, placement: u64, f: impl FnOnce(Option<TimeSource>) -> T) -> T {
    if placement == 0 {
        return f(Some(src.clone()));
    }
    let decoy = || TimeSource::custom(ManuallyAdvancedTimeSource::at_time(UNIX_EPOCH + Duration::from_secs(86_400 * 365 * 20)));
    if placement >= 4 {
        // 4 = the runtime-scoped override of the tokio runtime the code runs in; 5 = the same after a thread-local
        // override by another clock has come and gone inside the runtime
        let rt = tokio::runtime::Builder::new_current_thread().build().unwrap();
        let _rtg = metrique_timesource::tokio::set_time_source_for_runtime(rt.handle(), src.clone());
        let _enter = rt.enter();
        if placement == 5 {
            drop(metrique_timesource::set_time_source(decoy()));
        }
        return f(None);
    }
    let _outer = metrique_timesource::set_time_source(src.clone());
    let decoy = || TimeSource::custom(ManuallyAdvancedTimeSource::at_time(UNIX_EPOCH + Duration::from_secs(86_400 * 365 * 20)));
    match placement {
        2 => {
            let inner = metrique_timesource::set_time_source(decoy());
            drop(inner);
        }
        3 => metrique_timesource::with_time_source(decoy(), || ()),
        _ => {}
    }
    f(None)
}

fn exec_timer(t0: u64, ops: &[(bool, u64)], placement: u64) -> Sx {
    let ts = ManuallyAdvancedTimeSource::at_time(UNIX_EPOCH);
    ts.update_instant(Duration::from_nanos(t0));
    with_ambient(&TimeSource::custom(ts.clone()), placement, |explicit| {
        let mut t = match explicit { Some(src) => Timer::start_now_with_timesource(src), None => Timer::start_now() };
        let mut obs = vec![];
        for &(stop, d) in ops {
            if stop { t.stop(); } else { ts.update_instant(Duration::from_nanos(d)); }
            obs.push(sx::n((&t).close().as_nanos()));
        }
        Sx::L(obs)
    })
}

/// A ValueWriter that captures the string a timestamp formatter writes.
struct StrCapture<'a>(&'a mut Option<String>);
impl metrique_writer_core::ValueWriter for StrCapture<'_> {
    fn string(self, value: &str) { *self.0 = Some(value.to_string()); }
    fn metric<'a>(self, _d: impl IntoIterator<Item = metrique_writer_core::Observation>, _u: metrique_writer_core::Unit, _dims: impl IntoIterator<Item = (&'a str, &'a str)>, _f: metrique_writer_core::MetricFlags<'_>) {}
    fn error(self, _e: metrique_writer_core::ValidationError) {}
}

fn wall(nanos: i128) -> std::time::SystemTime {
    if nanos >= 0 { UNIX_EPOCH + Duration::new((nanos / 1_000_000_000) as u64, (nanos % 1_000_000_000) as u32) }
    else { let n = -nanos; UNIX_EPOCH - Duration::new((n / 1_000_000_000) as u64, (n % 1_000_000_000) as u32) }
}

/// Timestamp (sampled at creation) or TimestampOnClose (sampled at close) over an injected wall clock, read through
/// the three epoch formatters; seconds / milliseconds are reported as the bits of the f64 the printed text denotes.
fn exec_timestamp(on_close: bool, w0: i128, w1: i128, placement: u64) -> Sx {
    use metrique::timers::{EpochMicros, EpochMillis, EpochSeconds, Timestamp, TimestampOnClose, TimestampValue};
    use metrique_writer_core::value::ValueFormatter;
    let ts = ManuallyAdvancedTimeSource::at_time(wall(w0));
    let source = TimeSource::custom(ts.clone());
    let value: TimestampValue = if on_close {
        let guard = metrique_timesource::set_time_source(source);
        let t = TimestampOnClose::default();
        drop(guard);
        ts.update_time(wall(w1));
        t.close()
    } else {
        let t = with_ambient(&source, placement, |explicit| match explicit { Some(src) => Timestamp::new_from_time_source(src), None => Timestamp::now() });
        ts.update_time(wall(w1));
        t.close()
    };
    let mut s = None; <EpochMicros as ValueFormatter<TimestampValue>>::format_value(StrCapture(&mut s), &value);
    let micros: u128 = s.unwrap().parse().unwrap();
    let mut s = None; <EpochSeconds as ValueFormatter<TimestampValue>>::format_value(StrCapture(&mut s), &value);
    let secs: f64 = s.unwrap().parse().unwrap();
    let mut s = None; <EpochMillis as ValueFormatter<TimestampValue>>::format_value(StrCapture(&mut s), &value);
    let millis: f64 = s.unwrap().parse().unwrap();
    // the default Value impl must agree with the millisecond formatter
    let mut s2 = None; metrique_writer_core::Value::write(&value, StrCapture(&mut s2));
    let dflt: f64 = s2.unwrap().parse().unwrap();
    Sx::L(vec![sx::n(micros), sx::n(secs.to_bits()), sx::n(if dflt.to_bits() == millis.to_bits() { millis.to_bits() } else { u64::MAX })])
}

pub fn exec(case: &Sx) -> (Sx, bool) {
    match case.tag() {
        2 => {
            let z = |x: &Sx| match x { Sx::A(neg, m) => if *neg { -(*m as i128) } else { *m as i128 }, _ => 0 };
            let placement = if case.list().len() > 4 { case.arg(3).num() as u64 } else { 0 };
            (exec_timestamp(case.arg(0).num() != 0, z(case.arg(1)), z(case.arg(2)), placement), true)
        }
        0 => {
            let ops: Vec<Op> = case.arg(0).list().iter().map(dec_op).collect();
            let nontrivial = ops.iter().filter(|o| matches!(o, Op::Stop(_) | Op::Overwrite(_) | Op::Discard(_))).count() >= 1;
            // second argument (not read by the model): every guard that is stopped is dropped by an unwinding frame
            let unwinding = case.list().len() > 2 && case.arg(1).num() != 0;
            let placement = if case.list().len() > 3 { case.arg(2).num() as u64 } else { 0 };
            (exec_stopwatch(&ops, unwinding, placement), nontrivial)
        }
        _ => {
            let ops: Vec<(bool, u64)> = case.arg(1).list().iter().map(|x| (x.tag() == 1, x.arg(0).num() as u64)).collect();
            let placement = if case.list().len() > 3 { case.arg(2).num() as u64 } else { 0 };
            (exec_timer(case.arg(0).num() as u64, &ops, placement), ops.iter().any(|o| o.0))
        }
    }
}

/// Operations allowed after the prefix (borrow rule: with a live borrowed guard only the clock and guards move).
fn allowed(live: &[(usize, bool)], borrowed: bool, advs: &[u64]) -> Vec<Op> {
    let mut v: Vec<Op> = advs.iter().map(|&d| Op::Adv(d)).collect();
    if !borrowed { v.push(Op::StartB); v.push(Op::StartO); v.push(Op::Clear); }
    for &(g, _) in live { v.push(Op::Stop(g)); v.push(Op::Overwrite(g)); v.push(Op::Discard(g)); }
    v
}

fn enumerate(depth: usize, advs: &[u64], pre: &mut Vec<Op>, live: &mut Vec<(usize, bool)>, nguards: usize, f: &mut dyn FnMut(&[Op])) {
    if !pre.is_empty() { f(pre); }
    if pre.len() == depth { return; }
    let borrowed = live.iter().any(|g| g.1);
    for o in allowed(live, borrowed, advs) {
        // consecutive clock advances add nothing new
        if matches!(o, Op::Adv(_)) && matches!(pre.last(), Some(Op::Adv(_))) { continue; }
        pre.push(o);
        let saved = live.clone();
        let mut ng = nguards;
        match o {
            Op::StartB => { live.push((nguards, true)); ng += 1; }
            Op::StartO => { live.push((nguards, false)); ng += 1; }
            Op::Stop(g) | Op::Overwrite(g) | Op::Discard(g) => live.retain(|x| x.0 != g),
            _ => {}
        }
        enumerate(depth, advs, pre, live, ng, f);
        *live = saved;
        pre.pop();
    }
}

fn random_ops(rng: &mut Rng, len: usize) -> Vec<Op> {
    let mut ops = vec![];
    let mut live: Vec<(usize, bool)> = vec![];
    let mut nguards = 0;
    for _ in 0..len {
        let borrowed = live.iter().any(|g| g.1);
        let advs = [rng.range(0, 5), rng.range(1, 2_000_000_000), rng.range(1, 1000)];
        let al = allowed(&live, borrowed, &advs);
        let o = *rng.pick(&al);
        match o {
            Op::StartB => { live.push((nguards, true)); nguards += 1; }
            Op::StartO => { live.push((nguards, false)); nguards += 1; }
            Op::Stop(g) | Op::Overwrite(g) | Op::Discard(g) => live.retain(|x| x.0 != g),
            _ => {}
        }
        ops.push(o);
    }
    ops
}

pub fn run(ctx: &Ctx) {
    let mut out = Out::new(ctx, "");
    let emit = |out: &mut Out, case: Sx| {
        let (imp, nt) = exec(&case);
        out.case(&case, &imp, nt);
    };
    if let Some(p) = &ctx.replay {
        for line in std::fs::read_to_string(p).unwrap().lines().filter(|l| l.starts_with('(')) {
            emit(&mut out, sx::parse(line));
        }
        out.finish("replay");
        return;
    }
    // exhaustive: every well-scoped sequence up to the depth
    let depth = if ctx.tier_thorough { 7 } else { 6 };
    let mut all: Vec<Vec<Op>> = vec![];
    enumerate(depth, &[3], &mut vec![], &mut vec![], 0, &mut |ops| {
        // keep sequences that end in an operation changing or revealing something
        all.push(ops.to_vec());
    });
    for ops in &all {
        out.count(&format!("exhaustive_len_{}", ops.len()));
        emit(&mut out, sx::tag(0, vec![Sx::L(ops.iter().map(enc_op).collect())]));
    }
    // the same sequences with every stopped guard dropped by a frame that is unwinding from a panic
    for ops in all.iter().filter(|o| o.iter().any(|x| matches!(x, Op::Stop(_)))).step_by(if ctx.tier_thorough { 1 } else { 2 }) {
        out.count("stopwatch_guard_drops_during_unwind");
        emit(&mut out, sx::tag(0, vec![Sx::L(ops.iter().map(enc_op).collect()), sx::boolean(true)]));
    }
    let mut rng = Rng::new(ctx.seed);
    let nrand = if ctx.tier_thorough { 20000 } else { 2000 };
    for _ in 0..nrand {
        let len = rng.range(5, if ctx.tier_thorough { 200 } else { 60 }) as usize;
        let ops = random_ops(&mut rng, len);
        for o in &ops {
            out.count(match o { Op::Adv(_) => "op_adv", Op::StartB => "op_start", Op::StartO => "op_start_owned", Op::Stop(_) => "op_stop", Op::Overwrite(_) => "op_overwrite", Op::Discard(_) => "op_discard", Op::Clear => "op_clear" });
        }
        emit(&mut out, sx::tag(0, vec![Sx::L(ops.iter().map(enc_op).collect())]));
        if rng.chance(1, 3) {
            // the stopwatch created through the ambient time source (a thread-local override, possibly after an inner
            // override has come and gone)
            out.count("stopwatch_cases_on_the_ambient_time_source");
            emit(&mut out, sx::tag(0, vec![Sx::L(ops.iter().map(enc_op).collect()), sx::boolean(false), sx::n(1 + rng.below(5))]));
        }
    }
    for _ in 0..(nrand / 4) {
        let t0 = rng.range(0, 1_000_000);
        let len = rng.range(1, 12) as usize;
        let ops: Vec<Sx> = (0..len).map(|_| if rng.chance(1, 3) { sx::tag(1, vec![]) } else { sx::tag(0, vec![sx::n(rng.range(0, 5_000_000_000))]) }).collect();
        out.count("timer_cases");
        emit(&mut out, sx::tag(1, vec![sx::n(t0), Sx::L(ops.clone())]));
        let pl = 1 + rng.below(5);
        out.count("timer_cases_on_the_ambient_time_source");
        emit(&mut out, sx::tag(1, vec![sx::n(t0), Sx::L(ops), sx::n(pl)]));
    }
    for _ in 0..(nrand / 2) {
        let w = |rng: &mut Rng| -> i128 { match rng.below(8) {
            0 => -(rng.below(5_000_000_000_000) as i128), 1 => 0, 2 => rng.below(1000) as i128,
            3 => 1_700_000_000_000_000_000 + rng.below(1_000_000_000) as i128,
            4 => (rng.below(4_000_000_000) as i128) * 1_000_000_000,
            5 => (1i128 << 53) * 1_000_000_000 / 1000 + rng.below(999) as i128,
            _ => rng.below(4_000_000_000_000_000_000) as i128 } };
        let (w0, w1) = (w(&mut rng), w(&mut rng));
        out.count("timestamp_cases");
        emit(&mut out, sx::tag(2, vec![sx::boolean(rng.chance(1, 2)), sx::z(w0), sx::z(w1)]));
        let pl = 1 + rng.below(5);
        out.count("timestamp_cases_on_the_ambient_time_source");
        emit(&mut out, sx::tag(2, vec![sx::boolean(false), sx::z(w0), sx::z(w1), sx::n(pl)]));
    }
    out.finish("stopwatch: every well-scoped operation sequence up to the tier's depth (exhaustive, one clock step size) plus random longer ones; timer: random advance/stop sequences; timestamps: random wall clocks (before the epoch, sub-microsecond, > 2^53 ns) for Timestamp and TimestampOnClose through the three epoch formatters; a third of the random stopwatch histories and every timer / Timestamp case again with the object created through the ambient time source (thread-local override alone, after a nested override by another clock has ended, or a runtime-scoped override of the current tokio runtime). Non-trivial = at least one guard completion (stop/drop/overwrite/discard) resp. one timer stop; distinct by hash of the case");
}
