//! C14 — formatting one entry never depends on entries formatted before it.
use crate::c02::emf::*;
use crate::common::{Ctx, Out, Rng};
use crate::sx::{self, Sx};

pub fn catalogue(rng: &mut Rng, cfg: &Config, big: bool) -> Call {
    let mut items = match rng.below(10) {
        0..=3 => gen_items(rng, cfg, &GenOpts { defects: 0, allow_scripts: false, allow_split: true }),
        4..=6 => gen_items(rng, cfg, &GenOpts { defects: 6, allow_scripts: false, allow_split: true }),
        7 => gen_items(rng, cfg, &GenOpts { defects: 0, allow_scripts: false, allow_split: false }),
        8 => vec![Item::Config(CItem::Unroutable), Item::Value("MetriqueValidationError".into(), VCall::Str(gen_string(rng)))],
        _ if rng.chance(1, 3) => gen_items(rng, cfg, &GenOpts { defects: 2, allow_scripts: false, allow_split: true }),
        _ => {
            // a large entry: many fields / long strings (multi-megabyte in the thorough tier)
            let n = if big { 3000 } else { 40 };
            let mut v = vec![];
            for d in cfg.default_dims.concat() { if !v.iter().any(|i| matches!(i, Item::Value(nm, _) if *nm == d)) { v.push(Item::Value(d, VCall::Str("x".repeat(if big { 900 } else { 40 })))); } }
            for i in 0..n { v.push(Item::Value(format!("big{i}"), if i % 3 == 0 { VCall::Str("y".repeat(if big { 700 } else { 30 })) } else { VCall::Metric(vec![Obs::U(i), Obs::F((i as f64 * 0.5).to_bits())], UnitS::None, vec![], Flag::None) })); }
            v
        }
    };
    if !has_timestamp(&items) { items.insert(0, Item::Timestamp(rng.below(2_000_000_000_000_000_000) as i128)); }
    let script = if count_split_sets(&items) == 0 && rng.chance(1, 5) { gen_script(rng, 200) } else { vec![] };
    Call { rate_exp: gen_rate(rng), items, script }
}

fn emit(out: &mut Out, case: &Case) {
    let (case_sx, imp_sx, raw) = exec_case(case, out);
    // property predicate on the implementation alone: every position equals a freshly built formatter
    for (i, (call, (res, bytes))) in case.calls.iter().zip(&raw).enumerate() {
        let mut f = build(&case.cfg);
        let (fres, fbytes) = exec_call(&mut f, call);
        let canon = |r: &Res, b: &[u8]| enc_res(r, b, true).to_string();
        if canon(res, bytes) != canon(&fres, &fbytes) {
            out.fail(format!("call #{i} of the sequence differs from the same entry on a freshly built formatter"), &case_sx);
        }
        out.count(match res { Res::Ok => "result_ok", Res::Validation(_) => "result_validation", Res::Io(_) => "result_io", Res::Panicked => "result_panic" });
    }
    out.add("calls", case.calls.len() as u64);
    if raw.iter().any(|(_, b)| b.len() > 200_000) {
        // multi-megabyte entries exercise shrink_to; the model's list-based buffers are quadratic there, so these
        // cases are decided by the property predicate above only
        out.count("large_predicate_only");
        return;
    }
    let kinds: std::collections::HashSet<_> = raw.iter().map(|r| std::mem::discriminant(&r.0)).collect();
    out.case(&case_sx, &imp_sx, case.calls.len() >= 2 && kinds.len() >= 2);
}

pub fn run(ctx: &Ctx) {
    crate::common::quiet_panics();
    let mut out = Out::new(ctx, "");
    if let Some(p) = &ctx.replay {
        for line in std::fs::read_to_string(p).unwrap().lines().filter(|l| l.starts_with('(')) { emit(&mut out, &dec_case(&sx::parse(line))); }
        out.finish("replay");
        return;
    }
    let mut rng = Rng::new(ctx.seed);
    let n = if ctx.tier_thorough { 8000 } else { 900 };
    for i in 0..n {
        let cfg = gen_config(&mut rng);
        let len = rng.range(2, 6);
        let big = ctx.tier_thorough && i % 400 == 0;
        let calls = (0..len).map(|_| catalogue(&mut rng, &cfg, big)).collect();
        emit(&mut out, &Case { cfg, calls, sorted: true });
    }
    // entries that make one of the formatter's reusable buffers grow past a megabyte (one distribution of 250 000
    // distinct observations; 30 000 metrics), followed by ordinary entries: decided by the fresh-formatter predicate
    for (k, huge) in [0u64, 1].into_iter().enumerate() {
        let cfg = Config { ctor: if k == 0 { Ctor::AllValidations } else { Ctor::NoValidations }, namespaces: vec!["N".into()], default_dims: vec![vec![]], directives: vec![], log_group: None, allow_ignored: false };
        let mut items = vec![Item::Timestamp(1_700_000_000_000_000_000)];
        if huge == 0 {
            items.push(Item::Value("Dist".into(), VCall::Metric((0..250_000u64).map(Obs::U).collect(), UnitS::None, vec![], Flag::None)));
        } else {
            for i in 0..30_000u64 { items.push(Item::Value(format!("metric_with_a_long_name_{i:08}"), VCall::Metric(vec![Obs::U(i)], UnitS::None, vec![], Flag::None))); }
        }
        let big = Call { rate_exp: None, items, script: vec![] };
        let small = |rng: &mut Rng| catalogue(rng, &cfg, false);
        let calls = vec![small(&mut rng), big, small(&mut rng), small(&mut rng)];
        out.count("sequence_with_a_megabyte_entry");
        emit(&mut out, &Case { cfg, calls, sorted: true });
    }
    // all ordered pairs over a catalogue of representative entries under one configuration
    let cfg = Config { ctor: Ctor::AllValidations, namespaces: vec!["A".into(), "B".into()], default_dims: vec![vec!["Region".into()], vec![]], directives: vec![], log_group: Some("lg".into()), allow_ignored: false };
    let ncat = if ctx.tier_thorough { 40 } else { 14 };
    let cat: Vec<Call> = (0..ncat).map(|_| catalogue(&mut rng, &cfg, false)).collect();
    for a in &cat { for b in &cat { out.count("ordered_pair"); emit(&mut out, &Case { cfg: cfg.clone(), calls: vec![a.clone(), b.clone()], sorted: true }); } }
    out.finish("sequences of 2-6 calls on one formatter drawn from {valid, each validation defect, split, entry-dimensions, unroutable report, sampled, failing writer, large}; every position compared with a freshly built formatter and with the model threaded through the same sequence; plus all ordered pairs over a catalogue. Non-trivial = a sequence whose calls end in at least two different result kinds; distinct by hash");
}
