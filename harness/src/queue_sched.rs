//! Queue family: cooperative scheduler over the `cfg(metrique_verif)` synchronisation points of
//! background.rs.  Every thread that takes part in a run (the library's writer thread and the harness's
//! producer threads) stops at each point; the controller (the harness's main thread) lets exactly one
//! continue until it reaches its next point, blocks in `park_deadline`/`join`, or finishes.  The execution
//! is therefore a sequentially consistent interleaving of the code blocks between points — a label list of
//! the Coq model — and is recorded as such, together with what was observable during each block.
use super::queue_core::*;
use crate::common::Rng;
use crate::sx::{self, Sx};
use metrique_writer::sink::{BackgroundQueue, BackgroundQueueBuilder, FlushWait, background_verif as bv};
use metrique_writer::{AnyEntrySink, BoxEntrySink, EntrySink};
use std::cell::Cell;
use std::collections::HashMap;
use std::sync::atomic::AtomicU64;
use std::sync::{Arc, Condvar, Mutex, OnceLock};
use std::time::{Duration, Instant};

#[derive(Clone, Copy, Debug, PartialEq, Eq)]
pub enum Op {
    Append(u64),
    Flush,
    CloneH,
    DropH,
    DropJoin,
    Forget,
}
impl Op {
    pub fn sx(&self) -> Sx {
        match *self {
            Op::Append(n) => sx::tag(0, vec![sx::n(n)]),
            Op::Flush => sx::tag(1, vec![]),
            Op::CloneH => sx::tag(2, vec![]),
            Op::DropH => sx::tag(3, vec![]),
            Op::DropJoin => sx::tag(4, vec![]),
            Op::Forget => sx::tag(5, vec![]),
        }
    }
    pub fn from_sx(x: &Sx) -> Op {
        match x.tag() {
            0 => Op::Append(x.arg(0).num() as u64),
            1 => Op::Flush,
            2 => Op::CloneH,
            3 => Op::DropH,
            4 => Op::DropJoin,
            _ => Op::Forget,
        }
    }
    fn code(&self) -> u64 {
        match *self {
            Op::Append(_) => 0,
            Op::Flush => 1,
            Op::CloneH => 2,
            Op::DropH => 3,
            Op::DropJoin => 4,
            Op::Forget => 5,
        }
    }
}

/// Everything that determines a scheduled run except the schedule itself.
#[derive(Clone)]
pub struct Plan {
    pub cap: usize,
    /// 0 = typed BackgroundQueue<Ent>, 1 = build_boxed + append_any, 2 = build_boxed + EntrySink::append
    pub kind: u8,
    /// 0 = flush interval 50 s (no deadline is ever reached), 1 = 1 µs (every deadline is reached)
    pub regime: u8,
    /// scripts of the harness threads 1..=k; the join handle belongs to thread `joiner` (1-based)
    pub scripts: Vec<Vec<Op>>,
    pub joiner: usize,
    /// (thread, seq, result) for the entries whose `next` fails
    pub results: Vec<(u64, u64, u8)>,
    pub report_result: u8,
    pub failing_flushes: Vec<u64>,
}

impl Plan {
    pub fn sx(&self) -> Sx {
        Sx::L(vec![
            sx::n(self.cap as u64),
            sx::n(self.kind),
            sx::n(self.regime),
            Sx::L(self.scripts.iter().map(|s| Sx::L(s.iter().map(|o| o.sx()).collect())).collect()),
            sx::n(self.joiner as u64),
            Sx::L(self.results.iter().map(|r| Sx::L(vec![sx::n(r.0), sx::n(r.1), sx::n(r.2)])).collect()),
            sx::n(self.report_result),
            Sx::L(self.failing_flushes.iter().map(|f| sx::n(*f)).collect()),
        ])
    }
    pub fn from_sx(x: &Sx) -> Plan {
        let l = x.list();
        Plan {
            cap: l[0].num() as usize,
            kind: l[1].num() as u8,
            regime: l[2].num() as u8,
            scripts: l[3].list().iter().map(|s| s.list().iter().map(Op::from_sx).collect()).collect(),
            joiner: l[4].num() as usize,
            results: l[5].list().iter().map(|r| (r.list()[0].num() as u64, r.list()[1].num() as u64, r.list()[2].num() as u8)).collect(),
            report_result: l[6].num() as u8,
            failing_flushes: l[7].list().iter().map(|f| f.num() as u64).collect(),
        }
    }
}

// ------------------------------------------------------------------------------------------ controller core

#[derive(Clone, Copy, Debug, PartialEq, Eq)]
enum TSt {
    NotStarted,
    Running,
    At,
    BlockedPark,
    BlockedJoin,
    Done,
}

struct Th {
    st: TSt,
    grant: bool,
    point: &'static str,
    data: u64,
    /// harness threads: the operation about to be executed (set when arriving at h.op)
    op: Option<Op>,
    /// flush request id assigned by the controller when it grants `h.op` of a Flush
    wid: u64,
}

struct St {
    run: u64,
    writer_name: String,
    th: Vec<Th>,
    probe: u64,
}

struct Core {
    m: Mutex<St>,
    cv: Condvar,
}

static CORE: OnceLock<Arc<Core>> = OnceLock::new();
static RUN_COUNTER: AtomicU64 = AtomicU64::new(0);

thread_local! {
    static ME: Cell<(u64, usize)> = const { Cell::new((0, 0)) };
    static EXIT_GUARD: Cell<Option<ExitGuard>> = const { Cell::new(None) };
}

/// Dropped by the thread-local destructors of the writer thread, i.e. after `run` and its epilogue.
struct ExitGuard(u64);
impl Drop for ExitGuard {
    fn drop(&mut self) {
        let core = core();
        let mut g = core.m.lock().unwrap();
        if g.run == self.0 {
            g.th[0].st = TSt::Done;
            core.cv.notify_all();
        }
    }
}

fn core() -> Arc<Core> {
    CORE.get_or_init(|| {
        let c = Arc::new(Core {
            m: Mutex::new(St { run: 0, writer_name: String::new(), th: vec![], probe: 0 }),
            cv: Condvar::new(),
        });
        c
    })
    .clone()
}

/// Attach / detach the controller (unscheduled runs execute the hooks as no-ops).
pub fn attach(on: bool) {
    if on {
        bv::install(Some(Arc::new(|name, data| on_point(name, data, None))));
    } else {
        bv::install(None);
    }
}

/// Called by library threads at every synchronisation point and by harness threads before every operation.
fn on_point(name: &'static str, data: u64, op: Option<Op>) {
    let core = core();
    let mut g = core.m.lock().unwrap();
    let (myrun, mut idx) = ME.with(|m| m.get());
    if g.run == 0 || myrun != g.run {
        // not (yet) a registered participant of the current run: the writer registers by its thread name
        let is_writer = std::thread::current().name().map(|n| n == g.writer_name).unwrap_or(false);
        if g.run != 0 && is_writer {
            ME.with(|m| m.set((g.run, 0)));
            EXIT_GUARD.with(|e| e.set(Some(ExitGuard(g.run))));
            idx = 0;
        } else {
            // a thread left over from an abandoned run (or an unscheduled run): do not burn the CPU
            drop(g);
            if myrun != 0 {
                std::thread::sleep(Duration::from_micros(300));
            }
            return;
        }
    }
    let myrun = g.run;
    if name == "w.handled" {
        g.probe = data;
        return;
    }
    {
        let t = &mut g.th[idx];
        t.st = TSt::At;
        t.point = name;
        t.data = data;
        if op.is_some() {
            t.op = op;
        }
    }
    core.cv.notify_all();
    loop {
        if g.run != myrun {
            return; // run abandoned
        }
        if g.th[idx].grant {
            g.th[idx].grant = false;
            return;
        }
        g = core.cv.wait(g).unwrap();
    }
}

// ------------------------------------------------------------------------------------------ handles

enum H {
    Typed(BackgroundQueue<Ent>),
    Boxed(BoxEntrySink),
}
impl H {
    fn dup(&self) -> H {
        match self {
            H::Typed(q) => H::Typed(q.clone()),
            H::Boxed(b) => H::Boxed(b.clone()),
        }
    }
    fn append(&self, e: Ent, kind: u8) {
        match self {
            H::Typed(q) => q.append(e),
            H::Boxed(b) => {
                if kind == 1 {
                    b.append_any(e)
                } else {
                    EntrySink::<Ent>::append(b, e)
                }
            }
        }
    }
    fn flush(&self) -> FlushWait {
        match self {
            H::Typed(q) => EntrySink::<Ent>::flush_async(q),
            H::Boxed(b) => AnyEntrySink::flush_async(b),
        }
    }
}

// ------------------------------------------------------------------------------------------ run

pub const PC_POP: i64 = 0;
pub const PC_CONSUME: i64 = 1;
pub const PC_HANDLE: i64 = 2;
pub const PC_RECV: i64 = 3;
pub const PC_CHECK_SD1: i64 = 4;
pub const PC_PARK: i64 = 5;
pub const PC_PARKED: i64 = 6;
pub const PC_CHECK_TIME: i64 = 7;
pub const PC_OUTER_FLUSH: i64 = 8;
pub const PC_CHECK_SD2: i64 = 9;
pub const PC_CHECK_APP: i64 = 10;
pub const PC_SD_FLUSH: i64 = 11;
pub const PC_SD_DROP: i64 = 12;
pub const PC_EXIT: i64 = 13;
pub const PC_EXITED: i64 = 14;

fn pc_of_point(p: &str) -> i64 {
    match p {
        "w.pop" => PC_POP,
        "w.consume" => PC_CONSUME,
        "w.handle" => PC_HANDLE,
        "w.recv" => PC_RECV,
        "w.check_sd1" => PC_CHECK_SD1,
        "w.park" => PC_PARK,
        "w.check_time" => PC_CHECK_TIME,
        "w.outer_flush" => PC_OUTER_FLUSH,
        "w.check_sd2" => PC_CHECK_SD2,
        "w.check_app" => PC_CHECK_APP,
        "w.sd_flush" => PC_SD_FLUSH,
        "w.sd_drop" => PC_SD_DROP,
        "w.exit" => PC_EXIT,
        _ => -1,
    }
}

/// One executed label with what the implementation showed during it.
pub struct Step {
    pub label: Sx,
    pub pc: i64,
    pub aux: u64,
    pub events: Vec<Ev>,
}

pub struct RunResult {
    pub steps: Vec<Step>,
    pub choices: Vec<usize>,
    /// set when a replayed choice sequence could not be followed
    pub diverged: Option<String>,
    /// the writer thread finished
    pub writer_done: bool,
    /// how the run ended when the writer did not finish
    pub end: &'static str,
    /// entries dropped (written, displaced or discarded) at the end of the run
    pub dropped: u64,
    pub appended: u64,
    pub grants: usize,
    pub queue_len_samples: Vec<u64>,
    pub counters: HashMap<String, u64>,
    /// the runnable set at every grant (systematic exploration branches on it)
    pub runnable_sets: Vec<Vec<usize>>,
}

/// `writer_bias` value that turns `replay_choices` into a forced prefix: afterwards the run continues with the
/// non-preemptive default policy (keep the running thread while it can run, else the lowest-numbered one).
pub const PREFIX_MODE: u64 = u64::MAX;
/// Like `PREFIX_MODE`, but the prefix is a wish list (an entry naming a thread that cannot run is replaced by the
/// default choice instead of counting as a divergence) and the run continues with the random policy (writer bias 4).
pub const LENIENT_PREFIX_MODE: u64 = u64::MAX - 1;

fn lw(res: u8, rep: Option<u8>, dl: bool, fl: bool) -> Sx {
    sx::tag(9, vec![sx::n(res), sx::n(rep.map(|r| r as u64 + 1).unwrap_or(0)), sx::boolean(dl), sx::boolean(fl)])
}

struct Ctl {
    core: Arc<Core>,
    run: u64,
    log: Log,
    futs: Arc<Mutex<Vec<(u64, FlushWait, bool)>>>,
    token: bool,
    regime: u8,
    typed: bool,
    box_clones: usize,
    next_wid: u64,
    steps: Vec<Step>,
}

impl Ctl {
    /// Wait until no participating thread is running.
    fn settle(&self) -> bool {
        let deadline = Instant::now() + Duration::from_secs(5);
        let mut g = self.core.m.lock().unwrap();
        loop {
            if g.th.iter().all(|t| !matches!(t.st, TSt::Running | TSt::NotStarted)) {
                return true;
            }
            let (ng, to) = self.core.cv.wait_timeout(g, Duration::from_millis(200)).unwrap();
            g = ng;
            if to.timed_out() && Instant::now() > deadline {
                return false;
            }
        }
    }

    fn writer_obs(&self) -> (i64, u64) {
        let g = self.core.m.lock().unwrap();
        let w = &g.th[0];
        match w.st {
            TSt::Done => (PC_EXITED, 0),
            TSt::BlockedPark => (PC_PARKED, g.probe),
            _ => {
                let pc = pc_of_point(w.point);
                let aux = match pc {
                    PC_HANDLE | PC_RECV | PC_POP | PC_SD_FLUSH => w.data,
                    _ => g.probe,
                };
                (pc, aux)
            }
        }
    }

    fn poll_wakes(&self) -> Vec<Ev> {
        let mut f = self.futs.lock().unwrap();
        f.sort_by_key(|x| x.0);
        let mut evs = vec![];
        for (w, fut, done) in f.iter_mut() {
            if !*done && poll_once(fut) {
                *done = true;
                evs.push(Ev::Wake(*w));
            }
        }
        evs
    }

    fn record(&mut self, label: Sx, mut events: Vec<Ev>, with_wakes: bool) {
        if with_wakes {
            events.extend(self.poll_wakes());
        }
        let (pc, aux) = self.writer_obs();
        self.steps.push(Step { label, pc, aux, events });
    }
}

pub fn run_scheduled(plan: &Plan, rng: &mut Rng, replay_choices: Option<&[usize]>, writer_bias: u64) -> RunResult {
    let core = core();
    attach(true);
    let k = plan.scripts.len();
    let run = RUN_COUNTER.fetch_add(1, std::sync::atomic::Ordering::SeqCst) + 1;
    let writer_name = format!("bqw-{run}");
    {
        let mut g = core.m.lock().unwrap();
        g.run = run;
        g.writer_name = writer_name.clone();
        g.probe = 0;
        g.th = (0..=k)
            .map(|_| Th { st: TSt::NotStarted, grant: false, point: "", data: 0, op: None, wid: 0 })
            .collect();
        core.cv.notify_all(); // releases threads of an abandoned run
    }
    let log: Log = Arc::new(Mutex::new(vec![]));
    let dropped = Arc::new(AtomicU64::new(0));
    let counters = Arc::new(Mutex::new(HashMap::new()));
    let queue_len = Arc::new(Mutex::new(vec![]));
    let script = Script {
        results: plan.results.iter().map(|r| ((r.0, r.1), r.2)).collect(),
        report_result: plan.report_result,
        failing_flushes: plan.failing_flushes.clone(),
    };
    let futs: Arc<Mutex<Vec<(u64, FlushWait, bool)>>> = Arc::new(Mutex::new(vec![]));
    let before_call: Arc<dyn Fn() + Send + Sync> = {
        let (futs, log) = (futs.clone(), log.clone());
        Arc::new(move || {
            let mut f = futs.lock().unwrap();
            f.sort_by_key(|x| x.0);
            for (w, fut, done) in f.iter_mut() {
                if !*done && poll_once(fut) {
                    *done = true;
                    log.lock().unwrap().push(Ev::Wake(*w));
                }
            }
        })
    };
    let stream = RecStream { log: log.clone(), script, gate: None, flush_calls: 0, before_call: Some(before_call) };
    let rec = LogRecorder { log: log.clone(), counters: counters.clone(), queue_len: queue_len.clone() };
    // the builder's setters in an order that depends on the plan (each setter keeps what the others set)
    let mut builder = BackgroundQueueBuilder::new();
    let mut rec = Some(rec);
    let mut writer_name = Some(writer_name);
    let rot = (plan.cap as usize + plan.regime as usize + plan.kind as usize + k as usize) % 5;
    for i in 0..5 {
        builder = match (i + rot) % 5 {
            0 => builder.capacity(plan.cap),
            1 => builder.thread_name(writer_name.take().unwrap()),
            2 => builder.flush_interval(if plan.regime == 0 { Duration::from_secs(50) } else { Duration::from_micros(1) }),
            3 => builder.shutdown_timeout(Duration::from_secs(3600)),
            _ => builder.metrics_recorder_local::<dyn metrics::Recorder, _>(rec.take().unwrap()),
        };
    }
    let typed = plan.kind == 0;
    let (h0, join) = if typed {
        let (q, j) = builder.build::<Ent>(stream);
        (H::Typed(q), j)
    } else {
        let (b, j) = builder.build_boxed(stream);
        (H::Boxed(b), j)
    };
    let mut ctl = Ctl {
        core: core.clone(),
        run,
        log: log.clone(),
        futs: futs.clone(),
        token: false,
        regime: plan.regime,
        typed,
        box_clones: k,
        next_wid: 0,
        steps: vec![],
    };
    // one handle per harness thread; the clones are taken before anything runs
    let mut handles: Vec<H> = (1..k).map(|_| h0.dup()).collect();
    handles.insert(0, h0);
    let mut join = Some(join);
    let mut ths = vec![];
    for (i, h) in handles.into_iter().enumerate() {
        let idx = i + 1;
        let ops = plan.scripts[i].clone();
        let jh = if plan.joiner == idx { join.take() } else { None };
        let kind = plan.kind;
        let futs = futs.clone();
        let dropped = dropped.clone();
        let core2 = core.clone();
        ths.push(std::thread::spawn(move || {
            ME.with(|m| m.set((run, idx)));
            let mut hs = vec![h];
            let mut jh = jh;
            for op in ops {
                on_point("h.op", op.code(), Some(op));
                if core2.m.lock().unwrap().run != run {
                    break;
                }
                match op {
                    Op::Append(n) => {
                        if let Some(h) = hs.last() {
                            h.append(Ent { thread: idx as u64, seq: n, dropped: Some(dropped.clone()) }, kind);
                        }
                    }
                    Op::Flush => {
                        if let Some(h) = hs.last() {
                            let w = core2.m.lock().unwrap().th[idx].wid;
                            let f = h.flush();
                            futs.lock().unwrap().push((w, f, false));
                        }
                    }
                    Op::CloneH => {
                        if let Some(h) = hs.last() {
                            let c = h.dup();
                            hs.push(c);
                        }
                    }
                    Op::DropH => {
                        hs.pop();
                    }
                    Op::DropJoin => drop(jh.take()),
                    Op::Forget => {
                        if let Some(j) = jh.take() {
                            j.forget()
                        }
                    }
                }
            }
            // a join handle that the script neither dropped nor forgot must not shut the queue down
            // behind the controller's back
            if let Some(j) = jh.take() {
                j.forget();
            }
            std::mem::forget(hs); // handles the script did not drop stay alive (leaked) on purpose
            let mut g = core2.m.lock().unwrap();
            if g.run == run {
                g.th[idx].st = TSt::Done;
                core2.cv.notify_all();
            }
        }));
    }
    let mut res = RunResult {
        steps: vec![],
        choices: vec![],
        diverged: None,
        writer_done: false,
        end: "complete",
        dropped: 0,
        appended: 0,
        grants: 0,
        queue_len_samples: vec![],
        counters: HashMap::new(),
        runnable_sets: vec![],
    };
    if !ctl.settle() {
        res.end = "threads did not reach their first synchronisation point";
    }
    if typed {
        for _ in 1..k {
            ctl.record(sx::tag(3, vec![]), vec![], false);
        }
    }
    let mut tail_budget: i64 = 80 + 4 * plan.cap as i64;
    let mut replay_pos = 0usize;
    while res.end == "complete" {
        // who can run?
        let (runnable, all_h_done, wst) = {
            let g = ctl.core.m.lock().unwrap();
            let r: Vec<usize> = (0..=k).filter(|&i| g.th[i].st == TSt::At).collect();
            let hd = (1..=k).all(|i| g.th[i].st == TSt::Done);
            (r, hd, g.th[0].st)
        };
        if all_h_done && wst == TSt::Done {
            break;
        }
        if all_h_done {
            tail_budget -= 1;
            if tail_budget < 0 {
                res.end = "writer still running after the step budget";
                break;
            }
        }
        if runnable.is_empty() {
            if wst == TSt::BlockedPark && ctl.regime != 0 {
                // nobody can unpark the writer: its park returns by timeout
                {
                    let mut g = ctl.core.m.lock().unwrap();
                    g.th[0].st = TSt::Running;
                }
                if !ctl.settle() {
                    res.end = "parked writer did not time out";
                    break;
                }
                ctl.record(lw(0, None, true, true), vec![], true);
                continue;
            }
            res.end = if wst == TSt::BlockedPark { "writer parked, nobody left to wake it" } else { "deadlock: no runnable thread" };
            break;
        }
        let idx = match replay_choices {
            Some(ch) => {
                let c = ch.get(replay_pos).copied();
                replay_pos += 1;
                match c {
                    Some(c) if runnable.contains(&c) => c,
                    Some(_) if writer_bias == LENIENT_PREFIX_MODE => runnable[0],
                    None if writer_bias == LENIENT_PREFIX_MODE => {
                        let total = runnable.len() as u64;
                        runnable[rng.below(total) as usize]
                    }
                    None if writer_bias == PREFIX_MODE => {
                        let last = res.choices.last().copied();
                        // the writer never blocks with the 1 us interval: do not let it starve the others
                        let streak = res.choices.iter().rev().take_while(|&&c| c == 0).count();
                        match last {
                            Some(0) if streak >= 24 && runnable.iter().any(|&r| r != 0) => *runnable.iter().find(|&&r| r != 0).unwrap(),
                            Some(l) if runnable.contains(&l) => l,
                            _ => runnable[0],
                        }
                    }
                    other => {
                        if res.diverged.is_none() {
                            res.diverged = Some(format!(
                                "the implementation left the recorded schedule at grant {}: recorded thread {:?}, runnable {:?}",
                                replay_pos - 1, other, runnable
                            ));
                        }
                        if other.is_none() && replay_pos > ch.len() + 400 {
                            res.end = "replay ran past the recorded schedule";
                            break;
                        }
                        runnable[0]
                    }
                }
            }
            None => {
                // the writer gets `writer_bias` shares, every producer four (bias 0: a writer that hardly runs)
                let pw = if writer_bias == 0 { 40 } else { 4 };
                let total = runnable.iter().map(|&i| if i == 0 { writer_bias.max(1) } else { pw }).sum::<u64>();
                let mut x = rng.below(total);
                let mut pick = runnable[0];
                for &i in &runnable {
                    let w = if i == 0 { writer_bias.max(1) } else { pw };
                    if x < w {
                        pick = i;
                        break;
                    }
                    x -= w;
                }
                pick
            }
        };
        res.choices.push(idx);
        res.runnable_sets.push(runnable.clone());
        res.grants += 1;
        // grant
        let log_before = ctl.log.lock().unwrap().len();
        let (point, op, wst_before) = {
            let g = ctl.core.m.lock().unwrap();
            (g.th[idx].point, g.th[idx].op, g.th[0].st)
        };
        let mut label: Option<Sx> = None;
        let mut extra_after: Vec<Sx> = vec![];
        let mut new_st = TSt::Running;
        let mut wake_writer = false;
        let mut wake_joiners = false;
        let token_before = ctl.token;
        match point {
            "h.op" => match op.unwrap() {
                Op::Append(_) | Op::DropJoin => {}
                Op::Flush => {
                    let w = ctl.next_wid;
                    ctl.next_wid += 1;
                    ctl.core.m.lock().unwrap().th[idx].wid = w;
                }
                Op::CloneH => {
                    if ctl.typed {
                        label = Some(sx::tag(3, vec![]));
                    } else {
                        ctl.box_clones += 1;
                    }
                }
                Op::DropH => {
                    if ctl.typed {
                        label = Some(sx::tag(4, vec![]));
                    } else {
                        ctl.box_clones -= 1;
                        if ctl.box_clones == 0 {
                            label = Some(sx::tag(4, vec![]));
                        }
                    }
                }
                Op::Forget => label = Some(sx::tag(5, vec![])),
            },
            "push.force" => {
                let n = match op { Some(Op::Append(n)) => n, _ => u64::MAX };
                label = Some(sx::tag(0, vec![sx::n(idx as u64), sx::n(n)]));
            }
            "push.unpark" | "flush.unpark" => {
                label = Some(sx::tag(1, vec![sx::n(idx as u64)]));
                wake_writer = true;
            }
            "flush.send" => {
                let w = ctl.core.m.lock().unwrap().th[idx].wid;
                label = Some(sx::tag(2, vec![sx::n(idx as u64), sx::n(w)]));
            }
            "join.store" => label = Some(sx::tag(6, vec![])),
            "join.unpark" => {
                label = Some(sx::tag(7, vec![]));
                wake_writer = true;
            }
            "join.join" => {
                if wst_before == TSt::Done {
                    label = Some(sx::tag(8, vec![]));
                } else {
                    new_st = TSt::BlockedJoin;
                }
            }
            "join.done" => {}
            "w.park" => {
                if ctl.token {
                    ctl.token = false;
                } else if ctl.regime == 0 {
                    new_st = TSt::BlockedPark;
                }
            }
            "w.exit" => wake_joiners = true,
            _ => {}
        }
        {
            let mut g = ctl.core.m.lock().unwrap();
            if wake_writer {
                if g.th[0].st == TSt::BlockedPark {
                    g.th[0].st = TSt::Running; // the unpark wakes it; it consumes the token at once
                    extra_after.push(lw(0, None, false, true));
                } else {
                    ctl.token = true;
                }
            }
            if wake_joiners {
                for i in 1..=k {
                    if g.th[i].st == TSt::BlockedJoin {
                        g.th[i].st = TSt::Running;
                        extra_after.push(sx::tag(8, vec![]));
                    }
                }
            }
            g.th[idx].st = new_st;
            g.th[idx].grant = true;
            ctl.core.cv.notify_all();
        }
        if !ctl.settle() {
            res.end = "a granted thread did not reach its next synchronisation point";
            break;
        }
        let events: Vec<Ev> = ctl.log.lock().unwrap()[log_before..].to_vec();
        if idx == 0 {
            // writer label: oracle values are read off what happened
            let arrival = { let g = ctl.core.m.lock().unwrap(); (g.th[0].st, g.th[0].point) };
            let mut r = 0u8;
            let mut rep = None;
            let mut fl = true;
            for e in &events {
                match e {
                    Ev::Next(_, _, x) => r = *x,
                    Ev::Report(x) => rep = Some(*x),
                    Ev::Flush(ok) => fl = *ok,
                    _ => {}
                }
            }
            let dl = match point {
                "w.consume" => arrival.0 == TSt::At && arrival.1 != "w.pop",
                "w.park" => !token_before && new_st != TSt::BlockedPark,
                "w.check_time" => arrival.0 == TSt::At && arrival.1 == "w.outer_flush",
                _ => false,
            };
            label = Some(lw(r, rep, dl, fl));
        }
        match label {
            Some(l) => {
                if extra_after.is_empty() {
                    ctl.record(l, events, true);
                } else {
                    // the step itself, then the wake-ups it caused; observations are taken at the end
                    // and attributed to the last of them, the intermediate ones carry what the model says
                    // must hold there (nothing new observable)
                    let (first_pc, first_aux) = if wake_writer { (PC_PARKED, ctl.core.m.lock().unwrap().probe) } else { ctl.writer_obs() };
                    let mut events = events;
                    events.extend(ctl.poll_wakes());
                    ctl.steps.push(Step { label: l, pc: first_pc, aux: first_aux, events });
                    let n = extra_after.len();
                    for (j, x) in extra_after.into_iter().enumerate() {
                        ctl.record(x, vec![], j + 1 == n);
                    }
                }
            }
            None => {
                // a block without shared-memory operation: nothing for the model, but it must be silent
                if !events.is_empty() {
                    ctl.record(sx::tag(10, vec![]), events, false);
                }
            }
        }
    }
    // final observation of completed flush requests (none expected: every step polled)
    let late = ctl.poll_wakes();
    if !late.is_empty() {
        ctl.steps.push(Step { label: sx::tag(10, vec![]), pc: -2, aux: 0, events: late });
    }
    let wdone = ctl.core.m.lock().unwrap().th[0].st == TSt::Done;
    // abandon whatever is still waiting at a point
    {
        let mut g = ctl.core.m.lock().unwrap();
        if g.run == run {
            g.run = 0;
        }
        ctl.core.cv.notify_all();
    }
    if res.end == "complete" || wdone {
        for t in ths {
            let _ = t.join();
        }
    }
    res.writer_done = wdone;
    res.steps = std::mem::take(&mut ctl.steps);
    res.dropped = dropped.load(std::sync::atomic::Ordering::SeqCst);
    res.appended = res.steps.iter().filter(|s| s.label.tag() == 0).count() as u64;
    res.queue_len_samples = queue_len.lock().unwrap().clone();
    res.counters = counters.lock().unwrap().clone();
    let _ = ctl.run;
    res
}

/// Case line of a scheduled run: (0 cap nosub labels plan choices)
pub fn case_sx(plan: &Plan, nosub: bool, r: &RunResult) -> Sx {
    sx::tag(
        0,
        vec![
            sx::n(plan.cap as u64),
            sx::boolean(nosub),
            Sx::L(r.steps.iter().map(|s| s.label.clone()).collect()),
            plan.sx(),
            Sx::L(r.choices.iter().map(|c| sx::n(*c as u64)).collect()),
        ],
    )
}

/// Implementation line: per label (writer pc, aux, events), then how the run ended.
pub fn impl_sx(r: &RunResult) -> Sx {
    let mut v: Vec<Sx> = r
        .steps
        .iter()
        .map(|s| Sx::L(vec![sx::z(s.pc as i128), sx::n(s.aux), Sx::L(s.events.iter().map(|e| e.sx()).collect())]))
        .collect();
    v.push(Sx::L(vec![sx::boolean(r.writer_done)]));
    Sx::L(v)
}
