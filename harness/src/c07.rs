//! C07 — #[metrics] naming, values and units for every type shape.
//!
//! The quantifier of the property is "programs": a seeded generator produces metric type trees, renders them
//! as ONE Rust crate (several bins) whose `main`s close each value, root it in `RootEntry`, record every
//! `EntryWriter` call through a recording writer and collect `sample_group()`; the crate is compiled against
//! the repository worktree's `#[metrics]` macro and run.  Three suites:
//!   -infl : the Inflector model against the real Inflector crate (the version the macro is locked to)
//!   -cat  : `const_str_value` of generated `Concatenated<..>` type trees (compiled in the generated crate)
//!   (main): type trees; implementation output = ((items) (sample-group pairs))
use crate::common::{Ctx, Out, Rng};
use crate::sx::{self, Sx};
use inflector::Inflector;
use std::collections::HashSet;
use std::fmt::Write as _;
use std::path::{Path, PathBuf};
use std::process::Command;
use std::time::Instant;

// ------------------------------------------------------------------------------------------------ trees

#[derive(Clone, Debug, PartialEq)]
enum Pfx { Infl(String), Exact(String) }
#[derive(Clone, Debug, PartialEq)]
enum Obs { U(u64), F(u64) }
#[derive(Clone, Debug, PartialEq)]
enum VCall { None, Str(String), Metric(Obs, u32, Vec<(String, String)>, bool), Invalid }
/// WithDimensions<T, N> | ForceFlag<T, MyFlagCtor>
#[derive(Clone, Debug, PartialEq)]
enum Wrapper { Dims(Vec<(String, String)>), Forced }
/// what a flattened field holds: Child | Some(child) | None::<Child> | a wrapper around the child
#[derive(Clone, Debug, PartialEq)]
enum OptMode { Plain, Some, None, Wrapped(Wrapper), /// Arc<Child>: closes through CloseValueRef to the child's entry; the model sees a plain flatten
    Arc }
#[derive(Clone, Debug, PartialEq)]
enum Leaf {
    /// ty: 0 u64, 1 u32, 2 u16, 3 u8, 4 usize, 5 bool, 6 f64, 7 f32, 8 Duration, 9 Arc<Mutex<u64>>, 10 Mutex<u64>
    /// (the Mutex forms close to Some(n): the model sees the number)
    Num { o: Obs, u: u32, ty: u8 },
    /// ty: 0 &'static str, 1 String, 2 Arc<String>, 3 Cow<'static, str>
    Str { s: String, ty: u8 },
    Enum { ra: u8, vs: Vec<(String, Option<String>)>, i: usize },
    Val { unit: Option<u32>, inner: Box<Leaf>, nign: u8, named: bool },
    Opt { present: bool, inner: Box<Leaf> },
    Wrap { w: Wrapper, inner: Box<Leaf> },
    /// the field carries #[metrics(format = PlusOne)] (only at the top of a field's leaf, never with a unit)
    Fmt { inner: Box<Leaf> },
}
#[derive(Clone, Debug, PartialEq)]
enum Kind {
    Field { name: Option<String>, unit: Option<u32>, sg: bool, v: Leaf },
    Flatten { p: Option<Pfx>, o: OptMode, d: Box<Def> },
    FlattenEntry { raw: Vec<(String, VCall)>, rawsg: Vec<(String, String)>, no_close: bool },
    Timestamp(u64),
    Ignore,
}
#[derive(Clone, Debug, PartialEq)]
struct Field { ident: String, k: Kind }
#[derive(Clone, Debug, PartialEq)]
enum VData { Unit, Tuple(Vec<Field>), Struct(Vec<Field>) }
#[derive(Clone, Debug, PartialEq)]
struct Variant { ident: String, name: Option<String>, d: VData }
#[derive(Clone, Debug, PartialEq)]
struct Tag { exact: bool, name: String, sg: bool }
/// mode: 0 root entry, 1 subfield, 2 subfield_owned
#[derive(Clone, Debug, PartialEq)]
enum Def {
    Struct { ra: u8, pfx: Option<Pfx>, fs: Vec<Field>, mode: u8 },
    Enum { ra: u8, pfx: Option<Pfx>, tag: Option<Tag>, vs: Vec<Variant>, chosen: usize, mode: u8 },
}
#[derive(Clone, Debug, PartialEq)]
enum CStr { Leaf(String), Cat(Box<CStr>, Box<CStr>) }

// ------------------------------------------------------------------------------------------------ wire

fn ostr(o: &Option<String>) -> Sx { sx::opt(o.as_ref().map(|s| sx::b(s.as_bytes()))) }
fn ounit(o: &Option<u32>) -> Sx { sx::opt(o.map(|u| sx::n(u))) }
fn enc_pfx(p: &Option<Pfx>) -> Sx {
    sx::opt(p.as_ref().map(|p| match p {
        Pfx::Infl(s) => sx::tag(0, vec![sx::b(s.as_bytes())]),
        Pfx::Exact(s) => sx::tag(1, vec![sx::b(s.as_bytes())]),
    }))
}
fn enc_obs(o: &Obs) -> Vec<Sx> {
    match o { Obs::U(n) => vec![sx::n(0u8), sx::n(*n)], Obs::F(b) => vec![sx::n(1u8), sx::n(*b)] }
}
fn enc_pairs(d: &[(String, String)]) -> Sx {
    Sx::L(d.iter().map(|(k, v)| Sx::L(vec![sx::b(k.as_bytes()), sx::b(v.as_bytes())])).collect())
}
fn enc_wrapper(w: &Wrapper) -> Sx {
    match w { Wrapper::Dims(d) => sx::tag(0, vec![enc_pairs(d)]), Wrapper::Forced => sx::tag(1, vec![]) }
}
fn enc_optmode(o: &OptMode) -> Sx {
    match o { OptMode::Plain => sx::n(0u8), OptMode::Some => sx::n(1u8), OptMode::None => sx::n(2u8), OptMode::Wrapped(w) => sx::tag(3, vec![enc_wrapper(w)]), OptMode::Arc => sx::n(4u8) }
}
fn enc_vcall(v: &VCall) -> Sx {
    match v {
        VCall::None => sx::tag(0, vec![]),
        VCall::Str(s) => sx::tag(1, vec![sx::b(s.as_bytes())]),
        VCall::Metric(o, u, d, f) => { let mut a = enc_obs(o); a.push(sx::n(*u)); a.push(enc_pairs(d)); a.push(sx::boolean(*f)); sx::tag(2, a) }
        VCall::Invalid => sx::tag(3, vec![]),
    }
}
fn enc_leaf(l: &Leaf) -> Sx {
    match l {
        Leaf::Num { o, u, ty } => { let mut a = enc_obs(o); a.push(sx::n(*u)); a.push(sx::n(*ty)); sx::tag(0, a) }
        Leaf::Str { s, ty } => sx::tag(1, vec![sx::b(s.as_bytes()), sx::n(*ty)]),
        Leaf::Enum { ra, vs, i } => sx::tag(2, vec![
            sx::n(*ra),
            Sx::L(vs.iter().map(|(id, nm)| Sx::L(vec![sx::b(id.as_bytes()), ostr(nm)])).collect()),
            sx::n(*i as u64),
        ]),
        Leaf::Val { unit, inner, nign, named } => sx::tag(3, vec![ounit(unit), enc_leaf(inner), sx::n(*nign), sx::boolean(*named)]),
        Leaf::Opt { present, inner } => sx::tag(4, vec![sx::boolean(*present), enc_leaf(inner)]),
        Leaf::Wrap { w, inner } => sx::tag(5, vec![enc_wrapper(w), enc_leaf(inner)]),
        Leaf::Fmt { inner } => sx::tag(6, vec![enc_leaf(inner)]),
    }
}
fn enc_fields(fs: &[Field]) -> Sx {
    Sx::L(fs.iter().map(|f| Sx::L(vec![sx::b(f.ident.as_bytes()), enc_kind(&f.k)])).collect())
}
fn enc_kind(k: &Kind) -> Sx {
    match k {
        Kind::Field { name, unit, sg, v } => sx::tag(0, vec![ostr(name), ounit(unit), sx::boolean(*sg), enc_leaf(v)]),
        Kind::Flatten { p, o, d } => sx::tag(1, vec![enc_pfx(p), enc_optmode(o), enc_def(d)]),
        Kind::FlattenEntry { raw, rawsg, no_close } => sx::tag(2, vec![
            Sx::L(raw.iter().map(|(n, v)| Sx::L(vec![sx::b(n.as_bytes()), enc_vcall(v)])).collect()),
            Sx::L(rawsg.iter().map(|(n, g)| Sx::L(vec![sx::b(n.as_bytes()), sx::b(g.as_bytes())])).collect()),
            sx::boolean(*no_close),
        ]),
        Kind::Timestamp(t) => sx::tag(3, vec![sx::n(*t)]),
        Kind::Ignore => sx::tag(4, vec![]),
    }
}
fn enc_def(d: &Def) -> Sx {
    match d {
        Def::Struct { ra, pfx, fs, mode } => sx::tag(0, vec![sx::n(*ra), enc_pfx(pfx), enc_fields(fs), sx::n(*mode)]),
        Def::Enum { ra, pfx, tag, vs, chosen, mode } => sx::tag(1, vec![
            sx::n(*ra),
            enc_pfx(pfx),
            sx::opt(tag.as_ref().map(|t| Sx::L(vec![sx::boolean(t.exact), sx::b(t.name.as_bytes()), sx::boolean(t.sg)]))),
            Sx::L(vs.iter().map(|v| Sx::L(vec![
                sx::b(v.ident.as_bytes()),
                ostr(&v.name),
                match &v.d {
                    VData::Unit => sx::tag(0, vec![]),
                    VData::Tuple(fs) => sx::tag(1, vec![enc_fields(fs)]),
                    VData::Struct(fs) => sx::tag(2, vec![enc_fields(fs)]),
                },
            ])).collect()),
            sx::n(*chosen as u64),
            sx::n(*mode),
        ]),
    }
}
fn enc_cstr(c: &CStr) -> Sx {
    match c {
        CStr::Leaf(s) => sx::tag(0, vec![sx::b(s.as_bytes())]),
        CStr::Cat(a, b) => sx::tag(1, vec![enc_cstr(a), enc_cstr(b)]),
    }
}

fn s_of(x: &Sx) -> String { String::from_utf8_lossy(x.bytes()).into_owned() }
fn dstr(x: &Sx) -> Option<String> { x.list().first().map(s_of) }
fn dunit(x: &Sx) -> Option<u32> { x.list().first().map(|u| u.num() as u32) }
fn dec_pfx(x: &Sx) -> Option<Pfx> {
    x.list().first().map(|p| if p.tag() == 0 { Pfx::Infl(s_of(p.arg(0))) } else { Pfx::Exact(s_of(p.arg(0))) })
}
fn dec_obs(k: &Sx, p: &Sx) -> Obs { if k.num() == 0 { Obs::U(p.num() as u64) } else { Obs::F(p.num() as u64) } }
fn dec_pairs(x: &Sx) -> Vec<(String, String)> { x.list().iter().map(|y| (s_of(&y.list()[0]), s_of(&y.list()[1]))).collect() }
fn dec_wrapper(x: &Sx) -> Wrapper { if x.tag() == 0 { Wrapper::Dims(dec_pairs(x.arg(0))) } else { Wrapper::Forced } }
fn dec_optmode(x: &Sx) -> OptMode {
    match x { Sx::A(_, 1) => OptMode::Some, Sx::A(_, 2) => OptMode::None, Sx::A(_, 4) => OptMode::Arc, Sx::L(_) if x.tag() == 3 => OptMode::Wrapped(dec_wrapper(x.arg(0))), _ => OptMode::Plain }
}
fn dec_vcall(x: &Sx) -> VCall {
    match x.tag() {
        0 => VCall::None,
        1 => VCall::Str(s_of(x.arg(0))),
        2 => VCall::Metric(dec_obs(x.arg(0), x.arg(1)), x.arg(2).num() as u32, dec_pairs(x.arg(3)), x.arg(4).num() != 0),
        _ => VCall::Invalid,
    }
}
fn dec_leaf(x: &Sx) -> Leaf {
    match x.tag() {
        0 => Leaf::Num { o: dec_obs(x.arg(0), x.arg(1)), u: x.arg(2).num() as u32, ty: x.arg(3).num() as u8 },
        1 => Leaf::Str { s: s_of(x.arg(0)), ty: x.arg(1).num() as u8 },
        2 => Leaf::Enum {
            ra: x.arg(0).num() as u8,
            vs: x.arg(1).list().iter().map(|v| (s_of(&v.list()[0]), dstr(&v.list()[1]))).collect(),
            i: x.arg(2).num() as usize,
        },
        3 => Leaf::Val { unit: dunit(x.arg(0)), inner: Box::new(dec_leaf(x.arg(1))), nign: x.arg(2).num() as u8, named: x.arg(3).num() != 0 },
        5 => Leaf::Wrap { w: dec_wrapper(x.arg(0)), inner: Box::new(dec_leaf(x.arg(1))) },
        6 => Leaf::Fmt { inner: Box::new(dec_leaf(x.arg(0))) },
        _ => Leaf::Opt { present: x.arg(0).num() != 0, inner: Box::new(dec_leaf(x.arg(1))) },
    }
}
fn dec_fields(x: &Sx) -> Vec<Field> {
    x.list().iter().map(|f| Field { ident: s_of(&f.list()[0]), k: dec_kind(&f.list()[1]) }).collect()
}
fn dec_kind(x: &Sx) -> Kind {
    match x.tag() {
        0 => Kind::Field { name: dstr(x.arg(0)), unit: dunit(x.arg(1)), sg: x.arg(2).num() != 0, v: dec_leaf(x.arg(3)) },
        1 => Kind::Flatten { p: dec_pfx(x.arg(0)), o: dec_optmode(x.arg(1)), d: Box::new(dec_def(x.arg(2))) },
        2 => Kind::FlattenEntry {
            raw: x.arg(0).list().iter().map(|y| (s_of(&y.list()[0]), dec_vcall(&y.list()[1]))).collect(),
            rawsg: x.arg(1).list().iter().map(|y| (s_of(&y.list()[0]), s_of(&y.list()[1]))).collect(),
            no_close: x.arg(2).num() != 0,
        },
        3 => Kind::Timestamp(x.arg(0).num() as u64),
        _ => Kind::Ignore,
    }
}
fn dec_def(x: &Sx) -> Def {
    if x.tag() == 0 {
        Def::Struct { ra: x.arg(0).num() as u8, pfx: dec_pfx(x.arg(1)), fs: dec_fields(x.arg(2)), mode: x.arg(3).num() as u8 }
    } else {
        Def::Enum {
            ra: x.arg(0).num() as u8,
            pfx: dec_pfx(x.arg(1)),
            tag: x.arg(2).list().first().map(|t| Tag { exact: t.list()[0].num() != 0, name: s_of(&t.list()[1]), sg: t.list()[2].num() != 0 }),
            vs: x.arg(3).list().iter().map(|v| Variant {
                ident: s_of(&v.list()[0]),
                name: dstr(&v.list()[1]),
                d: match v.list()[2].tag() {
                    0 => VData::Unit,
                    1 => VData::Tuple(dec_fields(v.list()[2].arg(0))),
                    _ => VData::Struct(dec_fields(v.list()[2].arg(0))),
                },
            }).collect(),
            chosen: x.arg(4).num() as usize,
            mode: x.arg(5).num() as u8,
        }
    }
}
fn dec_cstr(x: &Sx) -> CStr {
    if x.tag() == 0 { CStr::Leaf(s_of(x.arg(0))) } else { CStr::Cat(Box::new(dec_cstr(x.arg(0))), Box::new(dec_cstr(x.arg(1)))) }
}

// ------------------------------------------------------------------------------------------------ rendering

const STYLE_ATTR: [&str; 4] = ["", "PascalCase", "snake_case", "kebab-case"];
/// unit code -> (UnitTag type in metrique::unit, Unit::name())
const UNITS: [(&str, &str); 14] = [
    ("None", "None"), ("Count", "Count"), ("Percent", "Percent"), ("Second", "Seconds"), ("Millisecond", "Milliseconds"),
    ("Microsecond", "Microseconds"), ("Byte", "Bytes"), ("Kilobyte", "Kilobytes"), ("Megabyte", "Megabytes"), ("Bit", "Bits"),
    ("BytePerSecond", "Bytes/Second"), ("Kilobit", "Kilobits"), ("Gigabyte", "Gigabytes"), ("TerabitPerSecond", "Terabits/Second"),
];

fn lit(s: &str) -> String { format!("{:?}", s) }

struct Render { defs: String, ctr: usize }
impl Render {
    fn fresh(&mut self, p: &str) -> String { self.ctr += 1; format!("{}{}", p, self.ctr) }

    /// (type, expression)
    fn leaf(&mut self, l: &Leaf) -> (String, String) {
        match l {
            Leaf::Num { o, ty, .. } => {
                let n = match o { Obs::U(n) | Obs::F(n) => *n };
                match ty {
                    0 => ("u64".into(), format!("{n}u64")),
                    1 => ("u32".into(), format!("{n}u32")),
                    2 => ("u16".into(), format!("{n}u16")),
                    3 => ("u8".into(), format!("{n}u8")),
                    4 => ("usize".into(), format!("{n}usize")),
                    5 => ("bool".into(), format!("{}", n != 0)),
                    6 => ("f64".into(), format!("f64::from_bits({n:#x}u64)")),
                    7 => ("f32".into(), format!("(f64::from_bits({n:#x}u64) as f32)")),
                    9 => ("Arc<Mutex<u64>>".into(), format!("Arc::new(Mutex::new({n}u64))")),
                    10 => ("Mutex<u64>".into(), format!("Mutex::new({n}u64)")),
                    _ => ("Duration".into(), format!("Duration::from_millis(f64::from_bits({n:#x}u64) as u64)")),
                }
            }
            Leaf::Str { s, ty } => match ty {
                0 => ("&'static str".into(), lit(s)),
                1 => ("String".into(), format!("String::from({})", lit(s))),
                2 => ("Arc<String>".into(), format!("Arc::new(String::from({}))", lit(s))),
                _ => ("Cow<'static, str>".into(), format!("Cow::Borrowed({})", lit(s))),
            },
            Leaf::Enum { ra, vs, i } => {
                let name = self.fresh("MqE");
                let mut attrs = vec!["value(string)".to_string()];
                if *ra != 0 { attrs.push(format!("rename_all = {}", lit(STYLE_ATTR[*ra as usize]))); }
                let mut body = String::new();
                for (id, nm) in vs {
                    if let Some(nm) = nm { write!(body, "    #[metrics(name = {})]\n", lit(nm)).unwrap(); }
                    write!(body, "    {id},\n").unwrap();
                }
                write!(self.defs, "#[metrics({})]\nenum {name} {{\n{body}}}\n", attrs.join(", ")).unwrap();
                (name.clone(), format!("{name}::{}", vs[*i].0))
            }
            Leaf::Val { unit, inner, nign, named } => {
                let (ity, iex) = self.leaf(inner);
                let name = self.fresh("MqV");
                let sg = leaf_can_group(inner);
                let attr = if sg { "value, sample_group" } else { "value" };
                let uattr = match unit { Some(u) => format!("#[metrics(unit = {})] ", UNITS[*u as usize].0), None => String::new() };
                if *named {
                    let mut body = String::new();
                    let mut ex = String::new();
                    for k in 0..*nign { write!(body, "    #[metrics(ignore)] ig{k}: u32,\n").unwrap(); write!(ex, "ig{k}: {k}, ").unwrap(); }
                    write!(body, "    {uattr}val: {ity},\n").unwrap();
                    write!(self.defs, "#[metrics({attr})]\nstruct {name} {{\n{body}}}\n").unwrap();
                    (name.clone(), format!("{name} {{ {ex}val: {iex} }}"))
                } else {
                    let mut body = String::new();
                    let mut ex = String::new();
                    // ignored fields only AFTER the value: `struct V(#[metrics(ignore)] u32, u64)` does not compile
                    // (the generated entry drops the ignored field but keeps the index `.1`), see docs/C07.md
                    for k in 0..*nign { body.push_str(", #[metrics(ignore)] u32"); write!(ex, ", {k}").unwrap(); }
                    write!(self.defs, "#[metrics({attr})]\nstruct {name}({uattr}{ity}{body});\n").unwrap();
                    (name.clone(), format!("{name}({iex}{ex})"))
                }
            }
            Leaf::Opt { present, inner } => {
                let (ity, iex) = self.leaf(inner);
                (format!("Option<{ity}>"), if *present { format!("Some({iex})") } else { "None".into() })
            }
            Leaf::Wrap { w, inner } => { let (ity, iex) = self.leaf(inner); Self::wrap(w, ity, iex) }
            Leaf::Fmt { inner } => self.leaf(inner),
        }
    }

    fn wrap(w: &Wrapper, ty: String, ex: String) -> (String, String) {
        match w {
            Wrapper::Dims(ds) => {
                let n = ds.len();
                let pairs: Vec<String> = ds.iter().map(|(k, v)| format!("({}, {})", lit(k), lit(v))).collect();
                (format!("WithDimensions<{ty}, {n}>"), format!("WithDimensions::<_, {n}>::new_with_dimensions({ex}, [{}])", pairs.join(", ")))
            }
            Wrapper::Forced => (format!("ForceFlag<{ty}, MyFlagCtor>"), format!("ForceFlag::<_, MyFlagCtor>::from({ex})")),
        }
    }

    fn pfx_attr(p: &Option<Pfx>) -> Option<String> {
        p.as_ref().map(|p| match p {
            Pfx::Infl(s) => format!("prefix = {}", lit(s)),
            Pfx::Exact(s) => format!("exact_prefix = {}", lit(s)),
        })
    }

    /// renders one field; returns (attribute + declaration, value expression)
    fn field(&mut self, f: &Field, named: bool) -> (String, String) {
        let (attrs, ty, ex): (Vec<String>, String, String) = match &f.k {
            Kind::Field { name, unit, sg, v } => {
                let (ty, ex) = self.leaf(v);
                let mut a = vec![];
                if let Some(n) = name { a.push(format!("name = {}", lit(n))); }
                if let Some(u) = unit { a.push(format!("unit = {}", UNITS[*u as usize].0)); }
                if matches!(v, Leaf::Fmt { .. }) { a.push("format = PlusOne".into()); }
                if *sg { a.push("sample_group".into()); }
                (a, ty, ex)
            }
            Kind::Flatten { p, o, d } => {
                let (ty, ex) = self.def(d);
                let mut a = vec!["flatten".to_string()];
                if let Some(x) = Self::pfx_attr(p) { a.push(x); }
                match o {
                    OptMode::Plain => (a, ty, ex),
                    OptMode::Some => (a, format!("Option<{ty}>"), format!("Some({ex})")),
                    OptMode::None => (a, format!("Option<{ty}>"), "None".into()),
                    OptMode::Wrapped(w) => { let (t, e) = Self::wrap(w, ty, ex); (a, t, e) }
                    OptMode::Arc => (a, format!("Arc<{ty}>"), format!("Arc::new({ex})")),
                }
            }
            Kind::FlattenEntry { raw, rawsg, no_close } => {
                let mut a = vec!["flatten_entry".to_string()];
                if *no_close { a.push("no_close".into()); }
                let items: Vec<String> = raw.iter().map(|(n, v)| format!("({}, {})", lit(n), match v {
                    VCall::None => "RawVal::Absent".to_string(),
                    VCall::Str(s) => format!("RawVal::Str({})", lit(s)),
                    VCall::Metric(Obs::U(n), u, ..) => format!("RawVal::U({n}, {u})"),
                    VCall::Metric(Obs::F(b), u, ..) => format!("RawVal::F({b:#x}, {u})"),
                    VCall::Invalid => "RawVal::Bad".to_string(),
                })).collect();
                let gs: Vec<String> = rawsg.iter().map(|(n, g)| format!("({}, {})", lit(n), lit(g))).collect();
                (a, "RawEntry".into(), format!("RawEntry {{ items: vec![{}], groups: vec![{}] }}", items.join(", "), gs.join(", ")))
            }
            Kind::Timestamp(t) => (vec!["timestamp".into()], "SystemTime".into(), format!("(UNIX_EPOCH + Duration::from_millis({t}))")),
            Kind::Ignore => (vec!["ignore".into()], "u32".into(), "7u32".into()),
        };
        let attr = if attrs.is_empty() { String::new() } else { format!("#[metrics({})] ", attrs.join(", ")) };
        if named { (format!("{attr}{}: {ty}", f.ident), format!("{}: {ex}", f.ident)) } else { (format!("{attr}{ty}"), ex) }
    }

    /// (type name, value expression)
    fn def(&mut self, d: &Def) -> (String, String) {
        match d {
            Def::Struct { ra, pfx, fs, mode } => {
                let mut body = String::new();
                let mut ex = vec![];
                for f in fs {
                    let (decl, e) = self.field(f, true);
                    write!(body, "    {decl},\n").unwrap();
                    ex.push(e);
                }
                let name = self.fresh("MqT");
                write!(self.defs, "{}\nstruct {name} {{\n{body}}}\n", Self::container_attr(*ra, pfx, &None, *mode)).unwrap();
                (name.clone(), format!("{name} {{ {} }}", ex.join(", ")))
            }
            Def::Enum { ra, pfx, tag, vs, chosen, mode } => {
                let mut body = String::new();
                let mut chosen_ex = String::new();
                let name = self.fresh("MqT");
                for (vi, v) in vs.iter().enumerate() {
                    if let Some(n) = &v.name { write!(body, "    #[metrics(name = {})]\n", lit(n)).unwrap(); }
                    match &v.d {
                        VData::Unit => {
                            write!(body, "    {},\n", v.ident).unwrap();
                            if vi == *chosen { chosen_ex = format!("{name}::{}", v.ident); }
                        }
                        VData::Tuple(fs) => {
                            let mut decls = vec![];
                            let mut ex = vec![];
                            for f in fs { let (dcl, e) = self.field(f, false); decls.push(dcl); ex.push(e); }
                            write!(body, "    {}({}),\n", v.ident, decls.join(", ")).unwrap();
                            if vi == *chosen { chosen_ex = format!("{name}::{}({})", v.ident, ex.join(", ")); }
                        }
                        VData::Struct(fs) => {
                            let mut decls = vec![];
                            let mut ex = vec![];
                            for f in fs { let (dcl, e) = self.field(f, true); decls.push(dcl); ex.push(e); }
                            write!(body, "    {} {{ {} }},\n", v.ident, decls.join(", ")).unwrap();
                            if vi == *chosen { chosen_ex = format!("{name}::{} {{ {} }}", v.ident, ex.join(", ")); }
                        }
                    }
                }
                write!(self.defs, "{}\nenum {name} {{\n{body}}}\n", Self::container_attr(*ra, pfx, tag, *mode)).unwrap();
                (name, chosen_ex)
            }
        }
    }

    fn container_attr(ra: u8, pfx: &Option<Pfx>, tag: &Option<Tag>, mode: u8) -> String {
        let mut a = vec![];
        match mode { 1 => a.push("subfield".to_string()), 2 => a.push("subfield_owned".to_string()), _ => {} }
        if ra != 0 { a.push(format!("rename_all = {}", lit(STYLE_ATTR[ra as usize]))); }
        if let Some(x) = Self::pfx_attr(pfx) { a.push(x); }
        if let Some(t) = tag {
            let mut ta = vec![format!("{} = {}", if t.exact { "name_exact" } else { "name" }, lit(&t.name))];
            if t.sg { ta.push("sample_group".into()); }
            a.push(format!("tag({})", ta.join(", ")));
        }
        if a.is_empty() { "#[metrics]".into() } else { format!("#[metrics({})]", a.join(", ")) }
    }

    fn cstr(&mut self, c: &CStr) -> String {
        match c {
            CStr::Leaf(s) => {
                let name = self.fresh("MqL");
                write!(self.defs, "struct {name};\nimpl ConstStr for {name} {{ const VAL: &'static str = {}; }}\n", lit(s)).unwrap();
                name
            }
            CStr::Cat(a, b) => { let x = self.cstr(a); let y = self.cstr(b); format!("Concatenated<{x}, {y}>") }
        }
    }
}

fn leaf_can_group(l: &Leaf) -> bool {
    match l {
        Leaf::Str { ty, .. } => *ty == 0,
        Leaf::Enum { .. } => true,
        Leaf::Val { inner, unit, .. } => unit.is_none() && leaf_can_group(inner),
        _ => false,
    }
}

#[derive(Clone, Debug)]
enum Case { Infl(u8, u8, Vec<u8>), Cat(CStr), Tree(Def) }
impl Case {
    fn enc(&self) -> Sx {
        match self {
            Case::Infl(m, st, s) => sx::tag(70, vec![sx::n(*m), sx::n(*st), sx::b(s)]),
            Case::Cat(c) => sx::tag(71, vec![enc_cstr(c)]),
            Case::Tree(d) => sx::tag(72, vec![enc_def(d)]),
        }
    }
    fn dec(x: &Sx) -> Option<Case> {
        match x.tag() {
            70 => Some(Case::Infl(x.arg(0).num() as u8, x.arg(1).num() as u8, x.arg(2).bytes().to_vec())),
            71 => Some(Case::Cat(dec_cstr(x.arg(0)))),
            72 => Some(Case::Tree(dec_def(x.arg(0)))),
            _ => None,
        }
    }
}

const PRELUDE: &str = r#"
#![allow(warnings)]
#![allow(bindings_with_variant_name)]
use metrique::unit_of_work::metrics;
use metrique::{CloseValue, RootEntry};
use metrique::concat::{Concatenated, ConstStr, const_str_value};
use metrique::unit::{Count, Percent, Second, Millisecond, Microsecond, Byte, Kilobyte, Megabyte, Bit, BytePerSecond, Kilobit, Gigabyte, TerabitPerSecond};
use metrique::writer::{Entry, EntryWriter, EntryConfig, MetricFlags, Observation, Unit, ValidationError, Value, ValueWriter};
use metrique::writer::value::{FlagConstructor, ForceFlag, MetricOptions, ValueFormatter, WithDimensions};
use std::borrow::Cow;
use std::fmt::Write as _;
use std::time::{Duration, SystemTime, UNIX_EPOCH};
use std::sync::{Arc, Mutex};

fn hex(s: &str) -> String { let mut o = String::from("\""); for b in s.bytes() { write!(o, "{:02x}", b).unwrap(); } o.push('"'); o }
fn unit_code(u: Unit) -> u64 {
    const NAMES: [&str; 14] = ["None", "Count", "Percent", "Seconds", "Milliseconds", "Microseconds", "Bytes", "Kilobytes",
        "Megabytes", "Bits", "Bytes/Second", "Kilobits", "Gigabytes", "Terabits/Second"];
    NAMES.iter().position(|n| *n == u.name()).map(|p| p as u64).unwrap_or(999)
}
fn unit_of(code: u64) -> Unit {
    use metrique::writer::unit::{NegativeScale, PositiveScale};
    match code {
        0 => Unit::None, 1 => Unit::Count, 2 => Unit::Percent, 3 => Unit::Second(NegativeScale::One),
        4 => Unit::Second(NegativeScale::Milli), 5 => Unit::Second(NegativeScale::Micro), 6 => Unit::Byte(PositiveScale::One),
        7 => Unit::Byte(PositiveScale::Kilo), 8 => Unit::Byte(PositiveScale::Mega), 9 => Unit::Bit(PositiveScale::One),
        10 => Unit::BytePerSecond(PositiveScale::One), 11 => Unit::Bit(PositiveScale::Kilo), 12 => Unit::Byte(PositiveScale::Giga),
        _ => Unit::BitPerSecond(PositiveScale::Tera),
    }
}

/// The option ForceFlag<_, MyFlagCtor> forces on every metric below it.
#[derive(Debug)]
struct MyFlagOpt;
impl MetricOptions for MyFlagOpt {}
struct MyFlagCtor;
impl FlagConstructor for MyFlagCtor {
    fn construct() -> MetricFlags<'static> { MetricFlags::upcast(&MyFlagOpt) }
}

/// The test formatter of #[metrics(format = PlusOne)]: u64 n is written as the metric n+1 in Count
/// (lifted over Option / Arc by the blanket impls of ValueFormatter).
struct PlusOne;
impl ValueFormatter<u64> for PlusOne {
    fn format_value(writer: impl ValueWriter, value: &u64) {
        writer.metric([Observation::Unsigned(value.wrapping_add(1))], Unit::Count, [], MetricFlags::empty())
    }
}

/// Records what a Value does with its ValueWriter.
struct VW<'s>(&'s mut String);
impl<'s> ValueWriter for VW<'s> {
    fn string(self, value: &str) { *self.0 = format!("(1 {})", hex(value)); }
    fn metric<'a>(self, distribution: impl IntoIterator<Item = Observation>, unit: Unit,
                  dimensions: impl IntoIterator<Item = (&'a str, &'a str)>, flags: MetricFlags<'_>) {
        let obs: Vec<Observation> = distribution.into_iter().collect();
        let dims: Vec<String> = dimensions.into_iter().map(|(k, v)| format!("({} {})", hex(k), hex(v))).collect();
        let dims = dims.join(" ");
        // the only option the generated programs ever set is MyFlagOpt; anything else is reported as (9 ..)
        let forced = flags.downcast::<MyFlagOpt>().is_some();
        let other = !forced && format!("{:?}", flags) != format!("{:?}", MetricFlags::empty());
        *self.0 = match (&obs[..], other) {
            ([Observation::Unsigned(n)], false) => format!("(2 0 {:x} {:x} ({dims}) {})", n, unit_code(unit), forced as u8),
            ([Observation::Floating(f)], false) => format!("(2 1 {:x} {:x} ({dims}) {})", f.to_bits(), unit_code(unit), forced as u8),
            _ => format!("(9 {:x})", obs.len()),
        };
    }
    fn error(self, _error: ValidationError) { *self.0 = "(3)".to_string(); }
}
/// Records every EntryWriter call: (0 millis) | (1 name borrowed value).
#[derive(Default)]
struct Rec { items: Vec<String> }
impl<'a> EntryWriter<'a> for Rec {
    fn timestamp(&mut self, timestamp: SystemTime) {
        self.items.push(format!("(0 {:x})", timestamp.duration_since(UNIX_EPOCH).unwrap().as_millis()));
    }
    fn value(&mut self, name: impl Into<Cow<'a, str>>, value: &(impl Value + ?Sized)) {
        let name: Cow<'a, str> = name.into();
        let borrowed = matches!(name, Cow::Borrowed(_));
        let mut v = String::from("(0)");
        value.write(VW(&mut v));
        self.items.push(format!("(1 {} {} {})", hex(&name), borrowed as u8, v));
    }
    fn config(&mut self, _config: &'a dyn EntryConfig) { self.items.push("(8)".to_string()); }
}
fn observe<E: Entry>(e: &E) -> String {
    let mut rec = Rec::default();
    e.write(&mut rec);
    let groups: Vec<String> = e.sample_group().map(|(n, g)| format!("({} {})", hex(&n), hex(&g))).collect();
    format!("(({}) ({}))", rec.items.join(" "), groups.join(" "))
}
fn observe_cstr(v: Cow<'static, str>) -> String {
    format!("({} {})", hex(&v), matches!(v, Cow::Borrowed(_)) as u8)
}

/// A hand-written Entry for #[metrics(flatten_entry)]: fixed calls, no inflection, no prefix.
#[derive(Clone)]
enum RawVal { Absent, Str(&'static str), U(u64, u64), F(u64, u64), Bad }
impl Value for RawVal {
    fn write(&self, writer: impl ValueWriter) {
        match self {
            RawVal::Absent => {}
            RawVal::Str(s) => writer.string(s),
            RawVal::U(n, u) => writer.metric([Observation::Unsigned(*n)], unit_of(*u), [], MetricFlags::empty()),
            RawVal::F(b, u) => writer.metric([Observation::Floating(f64::from_bits(*b))], unit_of(*u), [], MetricFlags::empty()),
            RawVal::Bad => writer.invalid("bad"),
        }
    }
}
#[derive(Clone)]
struct RawEntry { items: Vec<(&'static str, RawVal)>, groups: Vec<(&'static str, &'static str)> }
impl Entry for RawEntry {
    fn write<'a>(&'a self, w: &mut impl EntryWriter<'a>) {
        for (n, v) in &self.items { w.value(*n, v); }
    }
    fn sample_group(&self) -> impl Iterator<Item = (Cow<'static, str>, Cow<'static, str>)> {
        self.groups.clone().into_iter().map(|(n, g)| (Cow::Borrowed(n), Cow::Borrowed(g)))
    }
}
impl CloseValue for RawEntry { type Closed = RawEntry; fn close(self) -> RawEntry { self } }
impl CloseValue for &RawEntry { type Closed = RawEntry; fn close(self) -> RawEntry { self.clone() } }
"#;

/// Render the cases of one bin; the program prints one line per case, in order.
fn render_bin(cases: &[&Case]) -> String {
    let mut src = String::from(PRELUDE);
    let mut calls = String::new();
    for (i, c) in cases.iter().enumerate() {
        let mut r = Render { defs: String::new(), ctr: 0 };
        let body = match c {
            Case::Tree(d) => {
                let (_ty, ex) = r.def(d);
                format!("let v = {ex};\n        let e = RootEntry::new(CloseValue::close(v));\n        observe(&e)")
            }
            Case::Cat(t) => { let ty = r.cstr(t); format!("observe_cstr(const_str_value::<{ty}>())") }
            Case::Infl(..) => unreachable!(),
        };
        write!(src, "mod c{i} {{\n    use super::*;\n{}\n    pub fn run() -> String {{\n        {body}\n    }}\n}}\n", r.defs).unwrap();
        write!(calls, "    println!(\"{{}}\", c{i}::run());\n").unwrap();
    }
    write!(src, "fn main() {{\n{calls}}}\n").unwrap();
    src
}

fn repo_dir() -> String { std::env::var("VERIF_REPO").unwrap_or_else(|_| "/repo".to_string()) }
fn gen_dir() -> PathBuf { Path::new(env!("CARGO_MANIFEST_DIR")).join("c07gen") }

/// Two checks against the same repository share the generated crate's directory: serialise them with a lock
/// directory (stale after 40 minutes).
struct DirLock(PathBuf);
impl DirLock {
    fn acquire(dir: &Path) -> DirLock {
        let _ = std::fs::create_dir_all(dir);
        let p = dir.join(".lock");
        loop {
            match std::fs::create_dir(&p) {
                Ok(()) => return DirLock(p),
                Err(_) => {
                    let stale = std::fs::metadata(&p).and_then(|m| m.modified()).ok()
                        .and_then(|t| t.elapsed().ok()).map(|d| d.as_secs() > 2400).unwrap_or(false);
                    if stale { let _ = std::fs::remove_dir(&p); } else { std::thread::sleep(std::time::Duration::from_millis(500)); }
                }
            }
        }
    }
}
impl Drop for DirLock { fn drop(&mut self) { let _ = std::fs::remove_dir(&self.0); } }

/// Writes the generated crate (nbins bins), builds it against the repository worktree and runs every bin.
/// Returns one output line per case, in the order of `cases`.
fn build_and_run(cases: &[&Case], nbins: usize, notes: &mut Vec<String>) -> Result<Vec<String>, String> {
    if cases.is_empty() { return Ok(vec![]); }
    let dir = gen_dir();
    let _lock = DirLock::acquire(&dir);
    let repo = repo_dir();
    let bindir = dir.join("src").join("bin");
    let _ = std::fs::remove_dir_all(dir.join("src"));
    std::fs::create_dir_all(&bindir).map_err(|e| e.to_string())?;
    let toml = format!(
        "[package]\nname = \"c07gen\"\nversion = \"0.0.0\"\nedition = \"2021\"\npublish = false\n\n[workspace]\n\n[dependencies]\nmetrique = {{ path = \"{repo}/metrique\", default-features = false }}\n\n[profile.dev]\nopt-level = 0\ndebug = false\nincremental = false\n\n[lints.rust]\nunexpected_cfgs = {{ level = \"allow\", check-cfg = ['cfg(metrique_verif)'] }}\n");
    let tp = dir.join("Cargo.toml");
    if std::fs::read_to_string(&tp).ok().as_deref() != Some(&toml) { std::fs::write(&tp, &toml).map_err(|e| e.to_string())?; }
    if !dir.join("Cargo.lock").exists() { let _ = std::fs::copy(Path::new(&repo).join("Cargo.lock"), dir.join("Cargo.lock")); }
    let nbins = nbins.max(1).min(cases.len());
    let per = cases.len().div_ceil(nbins);
    let chunks: Vec<&[&Case]> = cases.chunks(per).collect();
    for (b, ch) in chunks.iter().enumerate() {
        std::fs::write(bindir.join(format!("g{b}.rs")), render_bin(ch)).map_err(|e| e.to_string())?;
    }
    let t0 = Instant::now();
    let build = |dir: &Path| Command::new("cargo")
        .args(["build", "--offline", "--quiet", "--bins"])
        .current_dir(dir)
        .env("CARGO_NET_OFFLINE", "true")
        .env("RUSTFLAGS", "--cfg metrique_verif")
        .env("CARGO_TARGET_DIR", dir.join("target"))
        .env_remove("MV_REGISTRY")
        .output();
    let mut o = build(&dir).map_err(|e| format!("cannot run cargo: {e}"))?;
    if !o.status.success() && String::from_utf8_lossy(&o.stderr).contains("Cargo.lock") {
        let _ = std::fs::copy(Path::new(&repo).join("Cargo.lock"), dir.join("Cargo.lock"));
        o = build(&dir).map_err(|e| format!("cannot run cargo: {e}"))?;
    }
    if !o.status.success() {
        let err = String::from_utf8_lossy(&o.stderr);
        let tail: String = err.lines().filter(|l| !l.trim().is_empty()).take(60).collect::<Vec<_>>().join("\n");
        return Err(format!("generated crate does not compile against {repo} (sources kept in {}):\n{tail}", dir.display()));
    }
    notes.push(format!("generated crate: {} cases in {} bins, cargo build {:.1} s", cases.len(), chunks.len(), t0.elapsed().as_secs_f64()));
    let mut lines = vec![];
    for (b, ch) in chunks.iter().enumerate() {
        let out = Command::new(dir.join("target").join("debug").join(format!("g{b}"))).output().map_err(|e| format!("cannot run g{b}: {e}"))?;
        if !out.status.success() {
            return Err(format!("generated program g{b} failed: {}", String::from_utf8_lossy(&out.stderr).chars().take(2000).collect::<String>()));
        }
        let l: Vec<String> = String::from_utf8_lossy(&out.stdout).lines().map(|s| s.to_string()).collect();
        if l.len() != ch.len() { return Err(format!("generated program g{b} printed {} lines for {} cases", l.len(), ch.len())); }
        lines.extend(l);
    }
    Ok(lines)
}

// ------------------------------------------------------------------------------------------------ the real Inflector

fn real_apply(st: u8, s: &str) -> String {
    match st { 1 => s.to_pascal_case(), 2 => s.to_snake_case(), 3 => s.to_kebab_case(), _ => s.to_string() }
}
/// NameStyle::apply_prefix of metrique-macro/src/inflect.rs, over the real crate (used for -infl mode 1 and by the
/// generator's identifier hygiene only; never as an oracle for tree cases).
fn real_apply_prefix(st: u8, s: &str) -> String {
    match st {
        1 => s.to_pascal_case(),
        2 => { let mut r = s.to_snake_case(); if !r.ends_with('_') { r.push('_'); } r }
        3 => { let mut r = s.to_kebab_case(); if !r.ends_with('-') { r.push('-'); } r }
        _ => s.to_string(),
    }
}
/// make_inflect_base's ident_base: the Rust identifier stem of the ConstStr structs (must be a valid identifier start,
/// and unique among the statement-level `#extra` items of one write body).
fn ident_base(s: &str) -> String { s.to_pascal_case().chars().filter(|c| c.is_alphanumeric()).collect() }

// ------------------------------------------------------------------------------------------------ generators

const WORDS: [&str; 40] = [
    "request", "count", "latency", "http", "api", "v2", "x", "id", "a", "b", "c", "ms", "io", "url", "db", "op", "foo", "bar",
    "data", "size", "is", "ok", "n", "err", "total", "bytes", "time", "retry", "cache", "hit", "s3", "ec2", "p99", "get", "put",
    "ducks", "number", "of", "downstream", "q",
];
const KEYWORDS: [&str; 56] = [
    "as", "break", "const", "continue", "crate", "else", "enum", "extern", "false", "fn", "for", "if", "impl", "in", "let", "loop",
    "match", "mod", "move", "mut", "pub", "ref", "return", "self", "Self", "static", "struct", "super", "trait", "true", "type",
    "unsafe", "use", "where", "while", "async", "await", "dyn", "abstract", "become", "box", "do", "final", "macro", "override",
    "priv", "typeof", "unsized", "virtual", "yield", "try", "gen", "union", "writer", "_", "v0",
];

fn cap(w: &str) -> String { let mut c = w.chars(); match c.next() { Some(f) => f.to_ascii_uppercase().to_string() + c.as_str(), None => String::new() } }

/// first alphanumeric character (if any) must be a letter: the macro derives Rust identifiers from these strings
fn first_alnum_is_letter(s: &str) -> bool { s.chars().find(|c| c.is_ascii_alphanumeric()).map(|c| c.is_ascii_alphabetic()).unwrap_or(true) }

struct Gen { rng: Rng, long: bool }
impl Gen {
    fn words(&mut self, lo: u64, hi: u64) -> Vec<&'static str> {
        let n = self.rng.range(lo, hi);
        (0..n).map(|_| *self.rng.pick(&WORDS)).collect()
    }
    /// a Rust field identifier: mostly snake_case words, sometimes camel/upper/odd underscores/digits
    fn field_ident(&mut self, taken: &mut HashSet<String>) -> String {
        loop {
            let ws = self.words(1, if self.long { 6 } else { 3 });
            let s = match self.rng.below(10) {
                0 => ws.iter().enumerate().map(|(i, w)| if i == 0 { w.to_string() } else { cap(w) }).collect::<String>(),
                1 => ws.iter().map(|w| w.to_uppercase()).collect::<Vec<_>>().join("_"),
                2 => format!("_{}", ws.join("_")),
                3 => format!("{}_", ws.join("__")),
                4 => self.raw_ident(),
                _ => ws.join("_"),
            };
            if s.is_empty() || s.as_bytes()[0].is_ascii_digit() || KEYWORDS.contains(&s.as_str()) || s.chars().all(|c| c == '_') { continue; }
            if !first_alnum_is_letter(&s) { continue; }
            if taken.insert(s.clone()) { return s; }
        }
    }
    fn raw_ident(&mut self) -> String {
        let n = self.rng.range(1, 8);
        let alpha = b"abcxyzABXYZ019_";
        let mut s = String::new();
        for i in 0..n {
            let c = *self.rng.pick(alpha) as char;
            if i == 0 && c.is_ascii_digit() { s.push('k'); } else { s.push(c); }
        }
        s
    }
    /// a Rust variant identifier: mostly UpperCamel
    fn variant_ident(&mut self, taken: &mut HashSet<String>) -> String {
        loop {
            let ws = self.words(1, 3);
            let s = match self.rng.below(8) {
                0 => ws.join("_"),
                1 => ws.iter().map(|w| w.to_uppercase()).collect::<String>(),
                2 => { let r = self.raw_ident(); cap(&r) }
                _ => ws.iter().map(|w| cap(w)).collect::<String>(),
            };
            if s.is_empty() || KEYWORDS.contains(&s.as_str()) || s.chars().all(|c| c == '_') || !first_alnum_is_letter(&s) || s.as_bytes()[0].is_ascii_digit() { continue; }
            if taken.insert(s.clone()) { return s; }
        }
    }
    /// an explicit `name = "..."`: anything without spaces, non-empty
    fn name_override(&mut self) -> String {
        loop {
            let ws = self.words(1, 3);
            let s = match self.rng.below(8) {
                0 => ws.iter().map(|w| cap(w)).collect::<String>(),
                1 => ws.join("-"),
                2 => ws.join("."),
                3 => format!("{}:{}", cap(ws[0]), ws[1..].join("_")),
                4 => ws.join("_").to_uppercase(),
                5 => format!("{}@{}", ws.join("/"), self.rng.below(100)),
                6 => { let mut r = self.raw_ident(); r.push_str(*self.rng.pick(&["", "-", "_", ".", "$"])); r }
                _ => ws.join("_"),
            };
            if !s.is_empty() && first_alnum_is_letter(&s) { return s; }
        }
    }
    /// an inflectable prefix: alphanumerics, '_' and '-' only; `root` prefixes must end with a delimiter
    fn infl_prefix(&mut self, root: bool) -> String {
        loop {
            let ws = if self.long { self.words(4, 9) } else { self.words(1, 2) };
            let mut s = match self.rng.below(8) {
                0 => ws.iter().map(|w| cap(w)).collect::<String>(),
                1 => ws.join("-"),
                2 => ws.join("_").to_uppercase(),
                3 => format!("{}-{}", cap(ws[0]), ws[1..].join("_")),
                4 if !root && !self.long => String::new(),
                5 => self.raw_ident().replace('_', "-"),
                _ => ws.join("_"),
            };
            if root || self.rng.chance(1, 2) { s.push(if self.rng.chance(1, 2) { '_' } else { '-' }); }
            if first_alnum_is_letter(&s) { return s; }
        }
    }
    fn exact_prefix(&mut self) -> String {
        loop {
            let ws = if self.long { self.words(4, 9) } else { self.words(1, 2) };
            let s = match self.rng.below(7) {
                0 => format!("{}:", ws.join("").to_uppercase()),
                1 => format!("{}.", ws.join(".")),
                2 => format!("{}@", cap(ws[0])),
                3 => ws.iter().map(|w| cap(w)).collect::<String>(),
                4 => format!("{}_", ws.join("_").to_uppercase()),
                5 if !self.long => String::new(),
                _ => format!("{}/", ws.join("-")),
            };
            if first_alnum_is_letter(&s) { return s; }
        }
    }
    fn prefix(&mut self, root: bool) -> Pfx {
        if self.rng.chance(3, 5) { Pfx::Infl(self.infl_prefix(root)) } else { Pfx::Exact(self.exact_prefix()) }
    }
    fn style(&mut self, p_preserve: u64) -> u8 { if self.rng.chance(p_preserve, 100) { 0 } else { self.rng.range(1, 3) as u8 } }
    fn text(&mut self) -> String {
        match self.rng.below(5) {
            0 => "us-west-2".into(),
            1 => String::new(),
            2 => { let a: &str = *self.rng.pick(&WORDS); let b: &str = *self.rng.pick(&WORDS); format!("{} {}", cap(a), b) }
            _ => self.words(1, 2).join("_"),
        }
    }

    fn num_leaf(&mut self) -> Leaf {
        let ty = self.rng.below(11) as u8;
        let (o, u) = match ty {
            9 | 10 => (Obs::U(self.rng.below(1 << 50)), 0),
            0 => (Obs::U(*self.rng.pick(&[0, 1, 42, u64::MAX, 1 << 53, 999_999_999_999])), 0),
            1 => (Obs::U(*self.rng.pick(&[0, 7, u32::MAX as u64])), 0),
            2 => (Obs::U(*self.rng.pick(&[0, 512, u16::MAX as u64])), 0),
            3 => (Obs::U(self.rng.below(256)), 0),
            4 => (Obs::U(self.rng.below(1 << 40)), 0),
            5 => (Obs::U(self.rng.below(2)), 0),
            6 => (Obs::F(self.rng.pick(&[0.0f64, -0.0, 1.5, 1e300, -2.25, 0.1, f64::INFINITY, 5e-324]).to_bits()), 0),
            7 => (Obs::F((*self.rng.pick(&[0.0f32, 0.5, -3.0, 1.0e20, 0.1]) as f64).to_bits()), 0),
            // Duration writes as_secs_f64() * 1000.0: exact (and equal to the millisecond count) for multiples of 125 ms,
            // so the case can carry the f64 the primitive will write; other durations are C19's business
            _ => (Obs::F(((125 * self.rng.below(1 << 33)) as f64).to_bits()), 4),
        };
        Leaf::Num { o, u, ty }
    }
    fn value_enum(&mut self) -> Leaf {
        let n = self.rng.range(1, 4) as usize;
        let mut taken = HashSet::new();
        let vs: Vec<(String, Option<String>)> = (0..n).map(|_| {
            let id = self.variant_ident(&mut taken);
            let nm = if self.rng.chance(1, 4) { Some(self.name_override()) } else { None };
            (id, nm)
        }).collect();
        Leaf::Enum { ra: self.style(40), vs, i: self.rng.below(n as u64) as usize }
    }
    /// a unit compatible with the leaf's native unit (ratio 1: native None -> anything, else the same unit)
    fn unit_for(&mut self, l: &Leaf) -> Option<u32> {
        match l {
            Leaf::Num { u, .. } => Some(if *u == 0 { self.rng.range(1, 13) as u32 } else { *u }),
            Leaf::Opt { inner, .. } | Leaf::Wrap { inner, .. } => self.unit_for(inner),
            _ => None,
        }
    }
    fn dims(&mut self) -> Vec<(String, String)> {
        let n = self.rng.range(1, 2);
        (0..n).map(|_| { let w: &str = *self.rng.pick(&WORDS); (cap(w), self.text()) }).collect()
    }
    /// a value wrapper allowed here: WithDimensions has no by-reference CloseValue impl; two ForceFlags cannot be
    /// merged (MetricFlags::try_merge panics), so never one below another
    fn wrapper(&mut self, by_ref: bool, forced: bool) -> Option<Wrapper> {
        match (by_ref, forced, self.rng.chance(1, 2)) {
            (false, _, true) | (false, true, _) => Some(Wrapper::Dims(self.dims())),
            (_, false, _) => Some(Wrapper::Forced),
            _ => None,
        }
    }
    /// (leaf, declared unit on the field). `by_ref`: the enclosing container closes its fields by reference;
    /// `forced`: a ForceFlag wrapper is already in force above.
    fn leaf(&mut self, want_group: bool, by_ref: bool, depth: u32, forced: bool) -> (Leaf, Option<u32>) {
        if want_group {
            let l = match self.rng.below(4) {
                0 => self.value_enum(),
                1 if depth < 2 => { let (i, _) = self.leaf(true, true, depth + 1, forced); Leaf::Val { unit: None, inner: Box::new(i), nign: self.rng.below(3) as u8, named: self.rng.chance(1, 2) } }
                _ => Leaf::Str { s: self.text(), ty: 0 },
            };
            return (l, None);
        }
        if depth == 0 && self.rng.chance(1, 12) {
            // #[metrics(format = PlusOne)] on a u64 (also through Option and the Mutex forms that close to Option<u64>)
            let ty = *self.rng.pick(&[0u8, 0, 9, 10]);
            let num = Leaf::Num { o: Obs::U(*self.rng.pick(&[0, 41, u64::MAX, 1 << 40])), u: 0, ty };
            let inner = if self.rng.chance(1, 3) { Leaf::Opt { present: self.rng.chance(2, 3), inner: Box::new(num) } } else { num };
            return (Leaf::Fmt { inner: Box::new(inner) }, None);
        }
        let l = match self.rng.below(12) {
            // by reference only &'static str and Arc<String> can be closed
            0 | 1 => Leaf::Str { s: self.text(), ty: if by_ref { *self.rng.pick(&[0u8, 0, 2]) } else { self.rng.below(4) as u8 } },
            2 => self.value_enum(),
            3 if depth < 2 => {
                let (i, u) = self.leaf(false, true, depth + 1, forced);
                Leaf::Val { unit: u, inner: Box::new(i), nign: self.rng.below(3) as u8, named: self.rng.chance(1, 2) }
            }
            4 | 5 if depth < 2 => {
                let (i, u) = self.leaf(false, by_ref, depth + 1, forced);
                // the unit goes on the enclosing field
                return (Leaf::Opt { present: self.rng.chance(1, 2), inner: Box::new(i) }, u);
            }
            6 if depth < 2 => {
                if let Some(w) = self.wrapper(by_ref, forced) {
                    let inner = if self.rng.chance(1, 5) { Leaf::Str { s: self.text(), ty: 0 } } else { self.num_leaf() };
                    let l = Leaf::Wrap { w, inner: Box::new(inner) };
                    let unit = if self.rng.chance(2, 5) { self.unit_for(&l) } else { None };
                    return (l, unit);
                }
                self.num_leaf()
            }
            _ => self.num_leaf(),
        };
        let unit = if self.rng.chance(2, 5) { self.unit_for(&l) } else { None };
        (l, unit)
    }

    fn raw_entry(&mut self, by_ref: bool) -> Kind {
        let n = self.rng.range(0, 3);
        let raw = (0..n).map(|_| {
            let name = self.name_override();
            let v = match self.rng.below(4) {
                0 => VCall::None,
                1 => VCall::Str(self.text()),
                2 => VCall::Metric(Obs::F(2.5f64.to_bits()), self.rng.below(14) as u32, vec![], false),
                _ => VCall::Metric(Obs::U(self.rng.below(1000)), self.rng.below(14) as u32, vec![], false),
            };
            (name, v)
        }).collect();
        let rawsg = if self.rng.chance(1, 3) { vec![(self.name_override(), self.text())] } else { vec![] };
        // `no_close` hands the field itself to the entry: only possible where the container closes by value
        Kind::FlattenEntry { raw, rawsg, no_close: !by_ref && self.rng.chance(1, 2) }
    }

    /// the fields of a struct or of one struct/tuple variant. `bases`: ident stems already used by statement-level
    /// ConstStr items of the same body (two equal stems do not compile).
    fn fields(&mut self, depth: u32, maxdepth: u32, named: bool, in_variant: bool, by_ref: bool, forced: bool, bases: &mut HashSet<String>) -> Vec<Field> {
        let n = if named { self.rng.range(1, 5) } else { self.rng.range(1, 3) };
        let mut taken = HashSet::new();
        let mut fs = vec![];
        let mut have_ts = false;
        for _ in 0..n {
            let ident = self.field_ident(&mut taken);
            let want_flatten = depth < maxdepth && self.rng.chance(if self.long { 55 } else { 30 }, 100);
            let r = self.rng.below(100);
            let k = if want_flatten {
                let o = match self.rng.below(9) {
                    0 | 1 | 2 => OptMode::Plain,
                    3 | 4 => OptMode::Some,
                    5 => OptMode::None,
                    6 => OptMode::Arc,
                    _ => self.wrapper(by_ref, forced).map(OptMode::Wrapped).unwrap_or(OptMode::Plain),
                };
                // Arc<Child> closes through CloseValueRef: the child must be closable by reference
                let child_by_ref = if by_ref || o == OptMode::Arc { true } else { self.rng.chance(1, 2) };
                let child_forced = forced || o == OptMode::Wrapped(Wrapper::Forced);
                let d = self.def(depth + 1, maxdepth, if child_by_ref { 1 } else { 2 }, child_forced);
                let p = if self.long || self.rng.chance(3, 5) {
                    let mut p;
                    loop {
                        p = self.prefix(false);
                        let base = match &p { Pfx::Infl(s) | Pfx::Exact(s) => ident_base(s) };
                        if bases.insert(base) { break; }
                    }
                    Some(p)
                } else { None };
                Kind::Flatten { p, o, d: Box::new(d) }
            } else if r < 8 {
                self.raw_entry(by_ref)
            } else if r < 16 || (!named) {
                // (ignore in a struct VARIANT did not compile before the repository's third fix: commit, see docs/C07.md)
                Kind::Ignore
            } else if r < 21 && !have_ts {
                have_ts = true;
                Kind::Timestamp(self.rng.below(1 << 41))
            } else {
                let sg = self.rng.chance(1, 6);
                let (v, unit) = self.leaf(sg, by_ref, 0, forced);
                let name = if self.rng.chance(1, 5) { Some(self.name_override()) } else { None };
                Kind::Field { name, unit, sg, v }
            };
            fs.push(Field { ident, k });
        }
        fs
    }

    fn container_prefix(&mut self) -> Option<Pfx> { if self.rng.chance(1, 3) { Some(self.prefix(true)) } else { None } }

    fn def(&mut self, depth: u32, maxdepth: u32, mode: u8, forced: bool) -> Def {
        let ra = self.style(if depth == 0 { 25 } else { 55 });
        let pfx = self.container_prefix();
        let by_ref = mode == 1;
        if self.rng.chance(7, 10) {
            let mut bases = HashSet::new();
            Def::Struct { ra, pfx, fs: self.fields(depth, maxdepth, true, false, by_ref, forced, &mut bases), mode }
        } else {
            // one stem namespace for the whole enum (conservative: arms are separate bodies), tag included
            let mut bases = HashSet::new();
            let tag = if self.rng.chance(3, 5) {
                let t = loop {
                    let exact = self.rng.chance(2, 5);
                    let name = if self.rng.chance(1, 3) { self.name_override() } else { self.words(1, 3).join("_") };
                    // the stems the tag's ConstStr items get, before and after the repair of the tag naming
                    let with_pfx = match (&pfx, exact) { (Some(Pfx::Infl(p)), false) | (Some(Pfx::Exact(p)), false) => format!("{p}{name}"), _ => name.clone() };
                    let b1 = ident_base(&with_pfx);
                    let b0 = ident_base(&real_apply(ra, &with_pfx));
                    let b2 = match (&pfx, exact) { (Some(Pfx::Exact(p)), false) => ident_base(&format!("{p}{}", real_apply(ra, &name))), _ => b0.clone() };
                    if [&b0, &b1, &b2].iter().all(|b| b.chars().next().map(|c| c.is_ascii_alphabetic()).unwrap_or(true)) {
                        bases.insert(b0); bases.insert(b1); bases.insert(b2);
                        break Tag { exact, name, sg: self.rng.chance(1, 2) };
                    }
                };
                Some(t)
            } else { None };
            let nv = self.rng.range(1, 4) as usize;
            let mut taken = HashSet::new();
            let vs: Vec<Variant> = (0..nv).map(|_| {
                let ident = self.variant_ident(&mut taken);
                let name = if self.rng.chance(1, 4) { Some(self.name_override()) } else { None };
                let d = match self.rng.below(5) {
                    0 => VData::Unit,
                    1 | 2 => VData::Tuple(self.fields(depth, maxdepth, false, true, by_ref, forced, &mut bases)),
                    _ => VData::Struct(self.fields(depth, maxdepth, true, true, by_ref, forced, &mut bases)),
                };
                Variant { ident, name, d }
            }).collect();
            Def::Enum { ra, pfx, tag, vs, chosen: self.rng.below(nv as u64) as usize, mode }
        }
    }

    fn cstr(&mut self, depth: u32) -> CStr {
        if depth == 0 || self.rng.chance(1, 4) {
            let n = *self.rng.pick(&[0u64, 1, 3, 10, 24, 25, 26, 49, 50, 51, 99, 100, 101, 130]);
            let n = if self.rng.chance(1, 2) { n } else { self.rng.below(40) };
            CStr::Leaf((0..n).map(|i| (b'a' + ((i + self.rng.below(3)) % 26) as u8) as char).collect())
        } else {
            CStr::Cat(Box::new(self.cstr(depth - 1)), Box::new(self.cstr(depth - 1)))
        }
    }
}

/// Tuple variants may only hold flatten / flatten_entry / ignore: `fields(named = false)` never produces others
/// except through the `!named` guard; this makes the invariant explicit for decoded (replayed) trees too.
fn tuple_ok(fs: &[Field]) -> bool { fs.iter().all(|f| matches!(f.k, Kind::Flatten { .. } | Kind::FlattenEntry { .. } | Kind::Ignore)) }

// small exhaustive grid: every combination of parent style x child style x flatten prefix kind x child container
// prefix kind x name override, on a two-level struct; and every tag declaration x style x container prefix kind.
fn grid() -> Vec<Def> {
    let mut out = vec![];
    let fpfx = [None, Some(Pfx::Infl("sub_part".into())), Some(Pfx::Infl("Down".into())), Some(Pfx::Exact("API:".into()))];
    let cpfx = [None, Some(Pfx::Infl("my_svc-".into())), Some(Pfx::Exact("Raw.".into()))];
    for pra in 0..4u8 { for cra in 0..4u8 { for fp in &fpfx { for cp in &cpfx {
        let child = Def::Struct { ra: cra, pfx: cp.clone(), mode: 1, fs: vec![
            Field { ident: "request_count".into(), k: Kind::Field { name: None, unit: None, sg: false, v: Leaf::Num { o: Obs::U(3), u: 0, ty: 1 } } },
            Field { ident: "ducks".into(), k: Kind::Field { name: Some("NDucks".into()), unit: Some(1), sg: false, v: Leaf::Num { o: Obs::U(9), u: 0, ty: 0 } } },
            Field { ident: "region".into(), k: Kind::Field { name: None, unit: None, sg: true, v: Leaf::Str { s: "eu".into(), ty: 0 } } },
        ] };
        out.push(Def::Struct { ra: pra, pfx: None, mode: 0, fs: vec![
            Field { ident: "own_field".into(), k: Kind::Field { name: None, unit: None, sg: false, v: Leaf::Num { o: Obs::U(1), u: 0, ty: 5 } } },
            Field { ident: "child".into(), k: Kind::Flatten { p: fp.clone(), o: OptMode::Plain, d: Box::new(child) } },
        ] });
    } } } }
    for ra in 0..4u8 { for cp in &cpfx { for exact in [false, true] { for name in ["operation", "MyOp", "a_b"] { for outer in 0..2u8 {
        let e = Def::Enum { ra, pfx: cp.clone(), mode: if outer == 0 { 0 } else { 1 }, chosen: 0,
            tag: Some(Tag { exact, name: name.into(), sg: true }),
            vs: vec![
                Variant { ident: "ReadData".into(), name: None, d: VData::Struct(vec![
                    Field { ident: "bytes_read".into(), k: Kind::Field { name: None, unit: Some(6), sg: false, v: Leaf::Num { o: Obs::U(1024), u: 0, ty: 4 } } }]) },
                Variant { ident: "Idle".into(), name: Some("custom-idle".into()), d: VData::Unit },
            ] };
        if outer == 0 { out.push(e); } else {
            // the same enum flattened under a kebab-case parent with a flatten prefix
            out.push(Def::Struct { ra: 3, pfx: None, mode: 0, fs: vec![
                Field { ident: "inner".into(), k: Kind::Flatten { p: Some(Pfx::Infl("up".into())), o: OptMode::Some, d: Box::new(e) } }] });
        }
    } } } } }
    // names around the 100-byte const-string limit: total length 96..=105, two- and three-level prefix chains
    for total in 96..=105usize { for ra in 0..4u8 { for three in [false, true] {
        let leaf_len = 11usize;
        let field = Field { ident: "f".repeat(leaf_len), k: Kind::Field { name: None, unit: None, sg: true, v: Leaf::Str { s: "g".into(), ty: 0 } } };
        let inner = Def::Struct { ra: 0, pfx: None, mode: 1, fs: vec![field] };
        let rest = total - leaf_len;
        let d = if three {
            let mid = Def::Struct { ra: 0, pfx: None, mode: 1, fs: vec![
                Field { ident: "m".into(), k: Kind::Flatten { p: Some(Pfx::Exact("q".repeat(40))), o: OptMode::Plain, d: Box::new(inner) } }] };
            Def::Struct { ra, pfx: None, mode: 0, fs: vec![
                Field { ident: "t".into(), k: Kind::Flatten { p: Some(Pfx::Infl(format!("{}_", "p".repeat(rest - 41)))), o: OptMode::Some, d: Box::new(mid) } }] }
        } else {
            Def::Struct { ra, pfx: None, mode: 0, fs: vec![
                Field { ident: "t".into(), k: Kind::Flatten { p: Some(Pfx::Exact("P".repeat(rest))), o: OptMode::Plain, d: Box::new(inner) } }] }
        };
        out.push(d);
    } } }
    out
}

fn count_tree(d: &Def, depth: u32, out: &mut Out) {
    let (ra, pfx, fss): (u8, &Option<Pfx>, Vec<&Vec<Field>>) = match d {
        Def::Struct { ra, pfx, fs, .. } => { out.count("node_struct"); (*ra, pfx, vec![fs]) }
        Def::Enum { ra, pfx, tag, vs, .. } => {
            out.count("node_enum");
            match tag { Some(t) => out.count(if t.exact { "tag_name_exact" } else { "tag_name" }), None => out.count("tag_none") }
            if let Some(t) = tag { if t.sg { out.count("tag_sample_group"); } }
            (*ra, pfx, vs.iter().filter_map(|v| match &v.d { VData::Unit => None, VData::Tuple(f) | VData::Struct(f) => Some(f) }).collect())
        }
    };
    out.count(&format!("rename_all_{}", ["preserve", "pascal", "snake", "kebab"][ra as usize]));
    out.count(match pfx { None => "container_prefix_none", Some(Pfx::Infl(_)) => "container_prefix", Some(Pfx::Exact(_)) => "container_exact_prefix" });
    out.count(&format!("depth_{depth}"));
    for fs in fss { for f in fs {
        match &f.k {
            Kind::Field { name, unit, sg, v } => {
                out.count("field");
                if name.is_some() { out.count("field_name_override"); }
                if unit.is_some() { out.count("field_unit"); }
                if *sg { out.count("field_sample_group"); }
                out.count(match v { Leaf::Num { .. } => "leaf_num", Leaf::Str { .. } => "leaf_str", Leaf::Enum { .. } => "leaf_value_enum", Leaf::Val { .. } => "leaf_value_struct", Leaf::Opt { present: true, .. } => "leaf_option_some", Leaf::Opt { .. } => "leaf_option_none", Leaf::Wrap { .. } => "leaf_with_dimensions_or_force_flag", Leaf::Fmt { .. } => "leaf_formatted" });
            }
            Kind::Flatten { p, o, d } => {
                out.count(match p { None => "flatten", Some(Pfx::Infl(_)) => "flatten_prefix", Some(Pfx::Exact(_)) => "flatten_exact_prefix" });
                out.count(match o { OptMode::Plain => "flatten_plain", OptMode::Some => "flatten_option_some", OptMode::None => "flatten_option_none", OptMode::Wrapped(Wrapper::Dims(_)) => "flatten_with_dimensions", OptMode::Wrapped(Wrapper::Forced) => "flatten_force_flag", OptMode::Arc => "flatten_arc" });
                count_tree(d, depth + 1, out);
            }
            Kind::FlattenEntry { .. } => out.count("flatten_entry"),
            Kind::Timestamp(_) => out.count("timestamp"),
            Kind::Ignore => out.count("ignore"),
        }
    } }
}
fn tree_nontrivial(d: &Def) -> bool {
    let (ra, pfx, tag, fss): (u8, &Option<Pfx>, bool, Vec<&Vec<Field>>) = match d {
        Def::Struct { ra, pfx, fs, .. } => (*ra, pfx, false, vec![fs]),
        Def::Enum { ra, pfx, tag, vs, .. } => (*ra, pfx, tag.is_some(), vs.iter().filter_map(|v| match &v.d { VData::Unit => None, VData::Tuple(f) | VData::Struct(f) => Some(f) }).collect()),
    };
    ra != 0 || pfx.is_some() || tag || fss.iter().any(|fs| fs.iter().any(|f| match &f.k {
        Kind::Field { name, .. } => name.is_some(),
        Kind::Flatten { p, d, .. } => p.is_some() || tree_nontrivial(d),
        _ => false,
    }))
}

fn inflector_cases(rng: &mut Rng, n: usize, out: &mut Out) -> Vec<Case> {
    let mut v = vec![];
    // exhaustive: every string up to length 5 over an alphabet with one of each character class
    let alpha = b"aB1_-";
    let mut cur: Vec<Vec<u8>> = vec![vec![]];
    for _len in 0..5 {
        let mut next = vec![];
        for s in &cur { for c in alpha { let mut t = s.clone(); t.push(*c); next.push(t); } }
        for s in &next { for st in 1..4u8 { v.push(Case::Infl(0, st, s.clone())); out.count("inflect_exhaustive"); } }
        cur = next;
    }
    let mut g = Gen { rng: rng.fork(), long: false };
    while v.len() < n {
        let mut taken = HashSet::new();
        let s: String = match g.rng.below(8) {
            0 => { out.count("inflect_field_ident"); g.field_ident(&mut taken) }
            1 => { out.count("inflect_variant_ident"); g.variant_ident(&mut taken) }
            2 => { out.count("inflect_name"); g.name_override() }
            3 => { out.count("inflect_prefix"); g.infl_prefix(false) }
            4 => { out.count("inflect_prefix_plus_ident"); format!("{}{}", g.infl_prefix(true), g.field_ident(&mut taken)) }
            5 => { out.count("inflect_exact_prefix"); g.exact_prefix() }
            6 => {
                out.count("inflect_random_ascii");
                let n = g.rng.below(24);
                (0..n).map(|_| *g.rng.pick(b"abcdefxyzABCDXYZ0123456789__--..:@/ $") as char).collect()
            }
            _ => { out.count("inflect_long"); g.long = true; let s = g.infl_prefix(false); g.long = false; s }
        };
        let mode = if g.rng.chance(1, 4) { 1 } else { 0 };
        v.push(Case::Infl(mode, g.rng.range(0, 3) as u8, s.into_bytes()));
    }
    v
}

fn exec_infl(c: &Case) -> Sx {
    match c {
        Case::Infl(mode, st, s) => {
            let s = String::from_utf8_lossy(s).into_owned();
            sx::b(if *mode == 0 { real_apply(*st, &s) } else { real_apply_prefix(*st, &s) }.as_bytes())
        }
        _ => unreachable!(),
    }
}

pub fn run(ctx: &Ctx) {
    let mut out_i = Out::new(ctx, "-infl");
    let mut out_c = Out::new(ctx, "-cat");
    let mut out_t = Out::new(ctx, "");
    let mut infl: Vec<Case> = vec![];
    let mut cats: Vec<Case> = vec![];
    let mut trees: Vec<Case> = vec![];
    let nbins;
    if let Some(p) = &ctx.replay {
        for line in std::fs::read_to_string(p).unwrap().lines().filter(|l| l.starts_with('(')) {
            match Case::dec(&sx::parse(line)) {
                Some(c @ Case::Infl(..)) => infl.push(c),
                Some(c @ Case::Cat(_)) => cats.push(c),
                Some(c @ Case::Tree(_)) => trees.push(c),
                None => {}
            }
        }
        nbins = 4;
    } else {
        let mut rng = Rng::new(ctx.seed);
        infl = inflector_cases(&mut rng, if ctx.tier_thorough { 400_000 } else { 110_000 }, &mut out_i);
        let mut g = Gen { rng: rng.fork(), long: false };
        for _ in 0..(if ctx.tier_thorough { 400 } else { 60 }) {
            let d = g.rng.range(1, 5) as u32;
            cats.push(Case::Cat(g.cstr(d)));
        }
        for d in grid() { out_t.count("grid_tree"); trees.push(Case::Tree(d)); }
        let nrand = if ctx.tier_thorough { 3600 } else { 260 };
        for i in 0..nrand {
            g.long = i % 6 == 5;
            let maxdepth = if ctx.tier_thorough { g.rng.range(1, 5) } else { g.rng.range(1, 3) } as u32;
            out_t.count(if g.long { "random_tree_long_prefixes" } else { "random_tree" });
            let mode = *g.rng.pick(&[0u8, 0, 1, 2]);
            trees.push(Case::Tree(g.def(0, maxdepth, mode, false)));
        }
        nbins = 16;
    }
    for c in &infl { let imp = exec_infl(c); out_i.case(&c.enc(), &imp, matches!(c, Case::Infl(_, st, _) if *st != 0)); }
    out_i.finish("Inflector model vs the real crate: every string up to length 5 over {a,B,1,_,-} in three styles, plus identifiers, names and prefixes drawn from the tree generator's vocabularies and random ASCII; non-trivial = style is not Preserve; distinct by hash");

    for c in &trees { if let Case::Tree(d) = c { count_tree(d, 0, &mut out_t); } }
    let all: Vec<&Case> = cats.iter().chain(trees.iter()).collect();
    let mut notes = vec![];
    match build_and_run(&all, nbins, &mut notes) {
        Ok(lines) => {
            for (c, l) in all.iter().zip(lines.iter()) {
                let imp = sx::parse(l);
                match c {
                    Case::Cat(_) => {
                        let owned = imp.list().get(1).map(|b| b.num() == 0).unwrap_or(false);
                        out_c.count(if owned { "const_str_owned" } else { "const_str_borrowed" });
                        out_c.case(&c.enc(), &imp, true);
                    }
                    Case::Tree(d) => {
                        for it in imp.list().first().map(|x| x.list()).unwrap_or(&[]) {
                            if it.tag() == 1 {
                                out_t.count("items_written");
                                if it.arg(1).num() == 0 { out_t.count("item_name_heap_allocated_over_100_bytes"); }
                                if it.arg(2).tag() == 0 { out_t.count("item_absent_value"); }
                            }
                        }
                        out_t.add("sample_group_pairs", imp.list().get(1).map(|x| x.list().len()).unwrap_or(0) as u64);
                        out_t.case(&c.enc(), &imp, tree_nontrivial(d));
                    }
                    _ => {}
                }
            }
        }
        Err(e) => {
            eprintln!("{e}");
            std::process::exit(3);
        }
    }
    out_t.notes.extend(notes);
    out_c.finish("const_str_value of generated Concatenated<..> type trees (leaf lengths around the 100-byte limit), compiled against the repository's metrique-core");
    out_t.finish("generated #[metrics] programs compiled with the repository's macro and run: an exhaustive grid (parent style x child style x flatten prefix kind x container prefix kind; tag declaration x style x container prefix kind x nesting) plus random type trees; non-trivial = some rename_all, prefix, tag or name override in the tree; distinct by hash of the case");
}
