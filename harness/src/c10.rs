//! C10 — aggregation conservation: harness-defined `#[aggregate] #[metrics]` types driven through the real
//! KeyedAggregator / Aggregate / TeeSink / NonAggregatedSink / MutexSink / WorkerSink and merge-on-drop guards.
use crate::common::{Ctx, Out, Rng, catch};
use crate::sx::{self, Sx};
use metrique::CloseValue;
use metrique::unit_of_work::metrics;
use metrique_aggregation::aggregate;
use metrique_aggregation::aggregator::{Aggregate, KeyedAggregator};
use metrique_aggregation::histogram::{Histogram, SortAndMerge};
use metrique_aggregation::sink::{NonAggregatedSink, TeeSink, WorkerSink};
use metrique_aggregation::traits::{AggregateSink, AggregateSinkRef, AggregateStrategy, FlushableSink, Key};
use metrique_aggregation::value::{Distribution, Flatten, KeepLast, MergeOptions, Sum};
use metrique_writer::test_util::{TestEntry, test_metric, to_test_entry};
use metrique_writer::{Entry, EntrySink, Observation};
use std::borrow::Cow;
use std::sync::atomic::{AtomicBool, AtomicU64, Ordering};
use std::sync::{Arc, Mutex};
use std::time::{Duration, Instant};

// ------------------------------------------------------------------------------------------ types under test

/// ty 0: two keys (String, u8); Sum x2, KeepLast, MergeOptions<KeepLast>, Distribution,
/// MergeOptions<Distribution>, bucketed Histogram.  wire shape (2 2 2 1).
#[aggregate(ref)]
#[metrics]
pub struct Item {
    #[aggregate(key)]
    name: String,
    #[aggregate(key)]
    shard: u8,
    #[aggregate(strategy = Sum)]
    count: u64,
    #[aggregate(strategy = Sum)]
    bytes: u64,
    #[aggregate(strategy = KeepLast)]
    last: u64,
    #[aggregate(strategy = MergeOptions<KeepLast>)]
    maybe: Option<u64>,
    #[aggregate(strategy = Distribution)]
    size: u64,
    #[aggregate(strategy = MergeOptions<Distribution>)]
    opt_size: Option<u64>,
    #[aggregate(strategy = Histogram<u64>)]
    lat: u64,
}

/// the same value fields without keys: for Aggregate<T> / MutexSink<Aggregate<T>>
#[aggregate(ref)]
#[metrics]
pub struct Plain {
    #[aggregate(strategy = Sum)]
    count: u64,
    #[aggregate(strategy = Sum)]
    bytes: u64,
    #[aggregate(strategy = KeepLast)]
    last: u64,
    #[aggregate(strategy = MergeOptions<KeepLast>)]
    maybe: Option<u64>,
    #[aggregate(strategy = Distribution)]
    size: u64,
    #[aggregate(strategy = MergeOptions<Distribution>)]
    opt_size: Option<u64>,
    #[aggregate(strategy = Histogram<u64>)]
    lat: u64,
}

#[aggregate]
#[metrics]
pub struct Sub {
    #[aggregate(strategy = Sum)]
    sub_count: u64,
    #[aggregate(strategy = Distribution)]
    sub_size: u64,
}

/// ty 1: Flatten of a nested aggregate + re-aggregation of a closed SortAndMerge histogram (several
/// observations per input).  wire shape (2 0 2 0): sums [extra, sub_count], dists [sub_size, multi].
#[aggregate]
#[metrics]
pub struct Outer {
    #[aggregate(key)]
    name: String,
    #[aggregate(key)]
    shard: u8,
    #[aggregate(strategy = Sum)]
    extra: u64,
    #[metrics(flatten)]
    #[aggregate(strategy = Flatten)]
    inner: Sub,
    #[aggregate(strategy = Histogram<u64, SortAndMerge>)]
    multi: Histogram<u64, SortAndMerge>,
}

/// ty 2: direct mode (the struct itself is merged, no closing): for MergeOnDrop.  wire shape (2 0 1 0)
#[aggregate(direct)]
#[metrics]
#[derive(Clone)]
pub struct Direct {
    #[aggregate(strategy = Sum)]
    count: u64,
    #[aggregate(strategy = Sum)]
    bytes: u64,
    #[aggregate(strategy = Distribution)]
    size: u64,
}
fn to_direct(e: &WEntry) -> Direct {
    Direct {
        count: e.sums.first().copied().unwrap_or(0),
        bytes: e.sums.get(1).copied().unwrap_or(0),
        size: e.dists.first().and_then(|d| d.first().copied()).unwrap_or(0),
    }
}

/// hand-written strategy over the same source: keyed by the string field only
pub struct ByName;
#[derive(Clone, Hash, PartialEq, Eq)]
#[metrics]
pub struct NameKey<'a> {
    name: Cow<'a, String>,
}
pub struct NameKeyExtractor;
impl Key<ItemEntry> for NameKeyExtractor {
    type Key<'a> = NameKey<'a>;
    fn from_source(source: &ItemEntry) -> Self::Key<'_> {
        #[allow(deprecated)]
        NameKey { name: Cow::Borrowed(&source.name) }
    }
    fn static_key<'a>(key: &Self::Key<'a>) -> Self::Key<'static> {
        NameKey { name: Cow::Owned(key.name.clone().into_owned()) }
    }
    fn static_key_matches<'a>(owned: &Self::Key<'static>, borrowed: &Self::Key<'a>) -> bool {
        owned == borrowed
    }
}
impl AggregateStrategy for ByName {
    type Source = ItemEntry;
    type Key = NameKeyExtractor;
}

/// hand-written strategy: string field + whether the first sum field reaches THRESH
pub const THRESH: u64 = 5;
pub struct ByThresh;
#[derive(Clone, Hash, PartialEq, Eq)]
#[metrics]
pub struct ThreshKey<'a> {
    name: Cow<'a, String>,
    over: bool,
}
pub struct ThreshKeyExtractor;
impl Key<ItemEntry> for ThreshKeyExtractor {
    type Key<'a> = ThreshKey<'a>;
    fn from_source(source: &ItemEntry) -> Self::Key<'_> {
        #[allow(deprecated)]
        ThreshKey { name: Cow::Borrowed(&source.name), over: source.count >= THRESH }
    }
    fn static_key<'a>(key: &Self::Key<'a>) -> Self::Key<'static> {
        ThreshKey { name: Cow::Owned(key.name.clone().into_owned()), over: key.over }
    }
    fn static_key_matches<'a>(owned: &Self::Key<'static>, borrowed: &Self::Key<'a>) -> bool {
        owned == borrowed
    }
}
impl AggregateStrategy for ByThresh {
    type Source = ItemEntry;
    type Key = ThreshKeyExtractor;
}

// ------------------------------------------------------------------------------------------ wire entries

#[derive(Clone, Debug, PartialEq)]
pub struct WEntry {
    id: u64,
    name: Vec<u8>,
    shard: u8,
    sums: Vec<u64>,
    lasts: Vec<Option<u64>>,
    dists: Vec<Vec<u64>>,
}

fn enc_entry(e: &WEntry) -> Sx {
    Sx::L(vec![
        sx::n(e.id),
        sx::b(&e.name),
        sx::n(e.shard),
        Sx::L(e.sums.iter().map(|&v| sx::n(v)).collect()),
        Sx::L(e.lasts.iter().map(|v| sx::opt(v.map(sx::n))).collect()),
        Sx::L(e.dists.iter().map(|d| Sx::L(d.iter().map(|&v| sx::n(v)).collect())).collect()),
    ])
}
fn dec_entry(x: &Sx) -> WEntry {
    let l = x.list();
    let g = |i: usize| l.get(i).cloned().unwrap_or(Sx::L(vec![]));
    WEntry {
        id: g(0).num() as u64,
        name: g(1).bytes().to_vec(),
        shard: g(2).num() as u8,
        sums: g(3).list().iter().map(|v| v.num() as u64).collect(),
        lasts: g(4).list().iter().map(|v| v.list().first().map(|y| y.num() as u64)).collect(),
        dists: g(5).list().iter().map(|d| d.list().iter().map(|v| v.num() as u64).collect()).collect(),
    }
}

fn name_of(e: &WEntry) -> String {
    String::from_utf8_lossy(&e.name).into_owned()
}
fn to_item(e: &WEntry) -> Item {
    Item {
        name: name_of(e),
        shard: e.shard,
        count: e.sums.first().copied().unwrap_or(0),
        bytes: e.sums.get(1).copied().unwrap_or(0),
        last: e.lasts.first().copied().flatten().unwrap_or(0),
        maybe: e.lasts.get(1).copied().flatten(),
        size: e.dists.first().and_then(|d| d.first().copied()).unwrap_or(0),
        opt_size: e.dists.get(1).and_then(|d| d.first().copied()),
        lat: e.dists.get(2).and_then(|d| d.first().copied()).unwrap_or(0),
    }
}
fn to_plain(e: &WEntry) -> Plain {
    let i = to_item(e);
    Plain { count: i.count, bytes: i.bytes, last: i.last, maybe: i.maybe, size: i.size, opt_size: i.opt_size, lat: i.lat }
}
fn to_outer(e: &WEntry) -> Outer {
    let mut multi: Histogram<u64, SortAndMerge> = Histogram::default();
    for &v in e.dists.get(1).map(|d| d.as_slice()).unwrap_or(&[]) {
        multi.add_value(v);
    }
    Outer {
        name: name_of(e),
        shard: e.shard,
        extra: e.sums.first().copied().unwrap_or(0),
        inner: Sub {
            sub_count: e.sums.get(1).copied().unwrap_or(0),
            sub_size: e.dists.first().and_then(|d| d.first().copied()).unwrap_or(0),
        },
        multi,
    }
}

/// shape of a type on the wire: (sums, lasts, exact dists, bucketed histograms)
fn shape_of(ty: u64) -> [u64; 4] {
    match ty {
        1 => [2, 0, 2, 0],
        2 => [2, 0, 1, 0],
        _ => [2, 2, 2, 1],
    }
}
fn ty_of_shape(x: &Sx) -> u64 {
    let g = |i: usize| x.list().get(i).map(|v| v.num()).unwrap_or(2);
    if g(1) == 0 { if g(2) == 1 { 2 } else { 1 } } else { 0 }
}
fn enc_shape(ty: u64) -> Sx {
    Sx::L(shape_of(ty).iter().map(|&v| sx::n(v)).collect())
}

// ------------------------------------------------------------------------------------------ observation

/// downstream inspector: converts every appended aggregate to a TestEntry immediately
#[derive(Clone, Default)]
pub struct Insp {
    store: Arc<Mutex<Vec<TestEntry>>>,
    dropped: Option<Arc<std::sync::atomic::AtomicBool>>,
}
impl<E: Entry + Send + 'static> EntrySink<E> for Insp {
    fn append(&self, entry: E) {
        self.store.lock().unwrap().push(to_test_entry(entry));
    }
    fn flush_async(&self) -> metrique_writer::sink::FlushWait {
        metrique_writer::sink::FlushWait::ready()
    }
}
impl Drop for Insp {
    fn drop(&mut self) {
        if let Some(d) = &self.dropped {
            d.store(true, std::sync::atomic::Ordering::SeqCst);
        }
    }
}
impl Insp {
    fn len(&self) -> usize {
        self.store.lock().unwrap().len()
    }
    fn slice(&self, from: usize, to: usize) -> Vec<TestEntry> {
        self.store.lock().unwrap()[from..to].to_vec()
    }
}

const BAD: u128 = 0xdead_0000_0000_0000_0000;

fn enc_u(m: Option<&metrique_writer::test_util::Metric>) -> Sx {
    match m {
        Some(m) if m.distribution.len() == 1 => match m.distribution[0] {
            Observation::Unsigned(v) => sx::n(v),
            _ => sx::n(BAD),
        },
        _ => sx::n(BAD + 1),
    }
}
fn enc_last(m: Option<&metrique_writer::test_util::Metric>) -> Sx {
    match m {
        None => sx::opt(None),
        Some(_) => sx::opt(Some(enc_u(m))),
    }
}
/// exact distribution: (total occurrences) pairs; the total must be an integer (inputs are integers)
fn enc_dist(m: Option<&metrique_writer::test_util::Metric>) -> Sx {
    match m {
        None => sx::n(BAD + 2),
        Some(m) => Sx::L(
            m.distribution
                .iter()
                .map(|o| match *o {
                    Observation::Repeated { total, occurrences } if total >= 0.0 && total.fract() == 0.0 && total < 1.8e19 => {
                        Sx::L(vec![sx::n(total as u64), sx::n(occurrences)])
                    }
                    Observation::Unsigned(v) => Sx::L(vec![sx::n(v), sx::n(1u64)]),
                    _ => Sx::L(vec![sx::n(BAD + 3), sx::n(1u64)]),
                })
                .collect(),
        ),
    }
}
fn enc_hist(m: Option<&metrique_writer::test_util::Metric>) -> Sx {
    match m {
        None => sx::n(BAD + 4),
        Some(m) => sx::n(m.num_observations()),
    }
}

/// one emitted aggregate -> (name shard (sums) (lasts) (dists...)); `keyslot` names the metric that fills
/// the second key position ("shard" for the generated key, "over" for ByThresh, none for ByName / no key)
fn enc_agg(ty: u64, e: &TestEntry) -> Sx {
    let name = e.values.get("name").map(|s| s.as_bytes().to_vec()).unwrap_or_default();
    let slot = if let Some(m) = e.metrics.get("shard") {
        enc_u(Some(m))
    } else if let Some(m) = e.metrics.get("over") {
        enc_u(Some(m))
    } else {
        sx::n(0u64)
    };
    let g = |k: &str| e.metrics.get(k);
    let (sums, lasts, dists) = if ty == 1 {
        (vec![enc_u(g("extra")), enc_u(g("sub_count"))], vec![], vec![enc_dist(g("sub_size")), enc_dist(g("multi"))])
    } else if ty == 2 {
        (vec![enc_u(g("count")), enc_u(g("bytes"))], vec![], vec![enc_dist(g("size"))])
    } else {
        (
            vec![enc_u(g("count")), enc_u(g("bytes"))],
            vec![enc_last(g("last")), enc_last(g("maybe"))],
            vec![enc_dist(g("size")), enc_dist(g("opt_size")), enc_hist(g("lat"))],
        )
    };
    Sx::L(vec![sx::b(name), slot, Sx::L(sums), Sx::L(lasts), Sx::L(dists)])
}

fn key_of_agg(a: &Sx) -> (Vec<u8>, u128) {
    (a.list()[0].bytes().to_vec(), a.list()[1].num())
}
fn enc_batch(ty: u64, es: &[TestEntry]) -> Sx {
    let mut v: Vec<Sx> = es.iter().map(|e| enc_agg(ty, e)).collect();
    v.sort_by_key(key_of_agg); // stable: the map's drain order is not observable
    Sx::L(v)
}

// ------------------------------------------------------------------------------------------ dynamic sink trees

pub trait AnySink: Send {
    fn merge(&mut self, e: ItemEntry);
    fn merge_ref(&mut self, e: &ItemEntry);
    fn flush(&mut self);
}
pub struct DynS(Box<dyn AnySink>);
impl AggregateSink<ItemEntry> for DynS {
    fn merge(&mut self, e: ItemEntry) {
        self.0.merge(e)
    }
}
impl AggregateSinkRef<ItemEntry> for DynS {
    fn merge_ref(&mut self, e: &ItemEntry) {
        self.0.merge_ref(e)
    }
}
impl FlushableSink for DynS {
    fn flush(&mut self) {
        self.0.flush()
    }
}
impl<S: AggregateStrategy<Source = ItemEntry>> AnySink for KeyedAggregator<S, Insp>
where
    KeyedAggregator<S, Insp>: AggregateSink<ItemEntry> + AggregateSinkRef<ItemEntry> + FlushableSink + Send,
{
    fn merge(&mut self, e: ItemEntry) {
        AggregateSink::merge(self, e)
    }
    fn merge_ref(&mut self, e: &ItemEntry) {
        AggregateSinkRef::merge_ref(self, e)
    }
    fn flush(&mut self) {
        FlushableSink::flush(self)
    }
}
impl AnySink for TeeSink<DynS, DynS> {
    fn merge(&mut self, e: ItemEntry) {
        AggregateSink::merge(self, e)
    }
    fn merge_ref(&mut self, _e: &ItemEntry) {
        panic!("TeeSink has no merge_ref")
    }
    fn flush(&mut self) {
        FlushableSink::flush(self)
    }
}
/// raw leaf: NonAggregatedSink over an entry sink that records the `last` field (the generator makes it
/// the input's id) of every entry it receives
#[derive(Clone, Default)]
pub struct RawStore(Arc<Mutex<Vec<u64>>>);
impl<M: metrique::InflectableEntry + Send + 'static> EntrySink<metrique::RootEntry<M>> for RawStore {
    fn append(&self, entry: metrique::RootEntry<M>) {
        let te = to_test_entry(entry);
        let id = te.metrics.get("last").map(|m| m.as_u64()).unwrap_or(u64::MAX);
        self.0.lock().unwrap().push(id);
    }
    fn flush_async(&self) -> metrique_writer::sink::FlushWait {
        metrique_writer::sink::FlushWait::ready()
    }
}
impl AnySink for NonAggregatedSink<RawStore> {
    fn merge(&mut self, e: ItemEntry) {
        AggregateSink::merge(self, e)
    }
    fn merge_ref(&mut self, _e: &ItemEntry) {
        panic!("NonAggregatedSink has no merge_ref")
    }
    fn flush(&mut self) {
        FlushableSink::flush(self)
    }
}

pub enum Leaf {
    Keyed(Insp, Vec<usize>),
    Raw(RawStore),
}

/// builds the real sink tree for a wire tree; leaves are returned in left-to-right order
fn build_tree(t: &Sx, leaves: &mut Vec<Leaf>, sentinel: &Option<Arc<std::sync::atomic::AtomicBool>>) -> DynS {
    match t.tag() {
        0 => {
            let insp = Insp { store: Default::default(), dropped: if leaves.is_empty() { sentinel.clone() } else { None } };
            leaves.push(Leaf::Keyed(insp.clone_handle(), vec![0]));
            match t.arg(0).tag() {
                0 => DynS(Box::new(KeyedAggregator::<Item, Insp>::new(insp))),
                1 => DynS(Box::new(KeyedAggregator::<ByName, Insp>::new(insp))),
                _ => DynS(Box::new(KeyedAggregator::<ByThresh, Insp>::new(insp))),
            }
        }
        1 => {
            let st = RawStore::default();
            leaves.push(Leaf::Raw(st.clone()));
            DynS(Box::new(NonAggregatedSink::new(st)))
        }
        _ => {
            let a = build_tree(t.arg(0), leaves, sentinel);
            let b = build_tree(t.arg(1), leaves, sentinel);
            DynS(Box::new(TeeSink::new(a, b)))
        }
    }
}
impl Insp {
    /// a second handle on the same store that does not carry the drop sentinel
    fn clone_handle(&self) -> Insp {
        Insp { store: self.store.clone(), dropped: None }
    }
}

fn mark_flush(leaves: &mut [Leaf]) {
    for l in leaves.iter_mut() {
        if let Leaf::Keyed(insp, marks) = l {
            marks.push(insp.len());
        }
    }
}
fn enc_leaves(ty: u64, leaves: &[Leaf]) -> Sx {
    Sx::L(
        leaves
            .iter()
            .map(|l| match l {
                Leaf::Keyed(insp, marks) => {
                    let mut bs = vec![];
                    for w in marks.windows(2) {
                        bs.push(enc_batch(ty, &insp.slice(w[0], w[1])));
                    }
                    // anything appended after the last recorded flush would be a spontaneous emission
                    let tail = insp.len();
                    if tail != *marks.last().unwrap() {
                        bs.push(enc_batch(ty, &insp.slice(*marks.last().unwrap(), tail)));
                    }
                    sx::tag(0, bs)
                }
                Leaf::Raw(st) => sx::tag(1, st.0.lock().unwrap().iter().map(|&i| sx::n(i)).collect()),
            })
            .collect(),
    )
}

// ------------------------------------------------------------------------------------------ executing cases

/// tag 0: operations on a sink tree, applied on the calling thread
fn exec_tree(case: &Sx) -> Sx {
    let ty = ty_of_shape(case.arg(0));
    let ops = case.arg(2).list();
    if ty == 1 {
        // Outer (Flatten + re-aggregated histogram): a single KeyedAggregator
        let insp = Insp::default();
        let mut agg: KeyedAggregator<Outer, Insp> = KeyedAggregator::new(insp.clone_handle());
        let mut marks = vec![0usize];
        for o in ops {
            match o.tag() {
                1 => {
                    agg.flush();
                    marks.push(insp.len());
                }
                _ => agg.merge(to_outer(&dec_entry(o.arg(0))).close()),
            }
        }
        agg.flush();
        marks.push(insp.len());
        return enc_leaves(1, &[Leaf::Keyed(insp, marks)]);
    }
    let mut leaves = vec![];
    let mut root = build_tree(case.arg(1), &mut leaves, &None);
    let root_is_keyed = case.arg(1).tag() == 0;
    for o in ops {
        match o.tag() {
            1 => {
                root.flush();
                mark_flush(&mut leaves);
            }
            2 if root_is_keyed => root.merge_ref(&to_item(&dec_entry(o.arg(0))).close()),
            _ => root.merge(to_item(&dec_entry(o.arg(0))).close()),
        }
    }
    root.flush();
    mark_flush(&mut leaves);
    enc_leaves(0, &leaves)
}

/// tag 1: Aggregate<T> embedded: insert / merge / merge_ref / insert_and_send_to, then close;
/// direct-mode type: MutexSink<Aggregate<Direct>> fed through RootSink::merge and MergeOnDrop guards (even number of
/// entries) or a bare Aggregate<Direct> fed through insert_direct (odd).
/// output: (aggregate (ids of the entries forwarded unaggregated by insert_and_send_to))
fn exec_embedded(case: &Sx) -> Sx {
    let ty = ty_of_shape(case.arg(0));
    let es: Vec<WEntry> = case.arg(1).list().iter().map(dec_entry).collect();
    let raw = RawStore::default();
    let te = if ty == 1 {
        let mut agg: Aggregate<Outer> = Aggregate::default();
        for e in &es {
            AggregateSink::merge(&mut agg, to_outer(e).close());
        }
        test_metric(agg)
    } else if ty == 2 {
        use metrique_aggregation::traits::RootSink;
        if es.len() % 2 == 1 {
            // the same type embedded without a mutex: Aggregate::insert_direct
            let mut agg = Aggregate::<Direct>::default();
            for e in &es {
                agg.insert_direct(to_direct(e));
            }
            return Sx::L(vec![enc_agg(ty, &test_metric(agg)), Sx::L(vec![])]);
        }
        let sink = metrique_aggregation::sink::MutexSink::new(Aggregate::<Direct>::default());
        for e in &es {
            match e.id % 3 {
                0 => RootSink::merge(&sink, to_direct(e)),
                1 => drop(to_direct(e).merge(sink.clone())),
                _ => {
                    // created with another value, overwritten through DerefMut before the drop
                    let mut g = Direct { count: 99, bytes: 99, size: 99 }.merge(sink.clone());
                    *g = to_direct(e);
                }
            }
        }
        test_metric(sink)
    } else {
        let mut agg: Aggregate<Plain> = Aggregate::default();
        for e in &es {
            match e.id % 4 {
                0 => agg.insert(to_plain(e)),
                1 => AggregateSink::merge(&mut agg, to_plain(e).close()),
                2 => AggregateSinkRef::merge_ref(&mut agg, &to_plain(e).close()),
                _ => agg.insert_and_send_to(to_plain(e), &raw),
            }
        }
        test_metric(agg)
    };
    Sx::L(vec![enc_agg(ty, &te), Sx::L(raw.0.lock().unwrap().iter().map(|&i| sx::n(i)).collect())])
}

// ------------------------------------------------------------------------------------------ worker sink

const FLUSH_MARK: u64 = u64::MAX;
const TRACE_CAP: u64 = 200;

/// The inner sink handed to WorkerSink: forwards to the real sink tree and records, on the worker thread,
/// the calls it receives (ids of merged entries, flushes) and the batch boundaries of every leaf.
pub struct Rec {
    inner: DynS,
    shared: Arc<RecShared>,
}
#[derive(Default)]
pub struct RecShared {
    leaves: Mutex<Vec<Leaf>>,
    trace: Mutex<Vec<u64>>,
    flushes: AtomicU64,
    merges: AtomicU64,
    dropped: AtomicBool,
}
impl AggregateSink<ItemEntry> for Rec {
    fn merge(&mut self, e: ItemEntry) {
        #[allow(deprecated)]
        let id = e.last;
        self.shared.merges.fetch_add(1, Ordering::SeqCst);
        self.shared.trace.lock().unwrap().push(id);
        self.inner.merge(e);
    }
}
impl FlushableSink for Rec {
    fn flush(&mut self) {
        self.inner.flush();
        let n = self.shared.flushes.fetch_add(1, Ordering::SeqCst);
        let mut lv = self.shared.leaves.lock().unwrap();
        let changed = lv.iter().any(|l| matches!(l, Leaf::Keyed(insp, marks) if insp.len() != *marks.last().unwrap()));
        // a spinning worker (or a zero interval) must not fill the memory with empty batches: beyond the
        // cap only flushes that emitted something are recorded
        if n < TRACE_CAP || changed {
            mark_flush(&mut lv);
            self.shared.trace.lock().unwrap().push(FLUSH_MARK);
        }
    }
}
impl Drop for Rec {
    fn drop(&mut self) {
        self.shared.dropped.store(true, Ordering::SeqCst);
    }
}

fn rt() -> tokio::runtime::Runtime {
    tokio::runtime::Builder::new_current_thread().enable_time().build().unwrap()
}

static WORKER_BROKEN: AtomicBool = AtomicBool::new(false);

type WSink = WorkerSink<ItemEntry, Rec>;
type WGuard = metrique_aggregation::sink::CloseAndMergeOnDrop<Item, WSink>;

/// mode 0 = "the interval never elapses": an hour, or the ways of saying "never" (chosen by the size of the case)
fn interval_of(mode: u128, salt: usize) -> Duration {
    match mode {
        0 => [Duration::from_secs(3600), Duration::MAX, Duration::from_secs(u64::MAX)][salt % 3],
        1 => Duration::ZERO,
        _ => Duration::from_micros(300),
    }
}

fn drop_empty(leaves: Sx) -> Sx {
    Sx::L(
        leaves
            .list()
            .iter()
            .map(|l| if l.tag() == 0 { sx::tag(0, l.list()[1..].iter().filter(|b| !b.list().is_empty()).cloned().collect()) } else { l.clone() })
            .collect(),
    )
}

/// waits until the worker thread has returned (its inner sink was dropped); None when it has not within
/// the deadline, with the number of flush calls seen during a further 20 ms
fn await_exit(shared: &RecShared, deadline: Duration) -> Result<(), u64> {
    let t0 = Instant::now();
    while t0.elapsed() < deadline {
        if shared.dropped.load(Ordering::SeqCst) {
            return Ok(());
        }
        std::thread::sleep(Duration::from_micros(200));
    }
    let f0 = shared.flushes.load(Ordering::SeqCst);
    std::thread::sleep(Duration::from_millis(20));
    Err(shared.flushes.load(Ordering::SeqCst) - f0)
}

/// tag 3: one client (this thread) drives a WorkerSink through a script; see Codec.v for the actions
fn exec_worker_det(case: &Sx, out_fail: &mut Vec<String>) -> Sx {
    let mode = case.arg(2).num();
    let shared = Arc::new(RecShared::default());
    let mut leaves = vec![];
    let tree = build_tree(case.arg(1), &mut leaves, &None);
    *shared.leaves.lock().unwrap() = leaves;
    let sink: WSink = WorkerSink::new(Rec { inner: tree, shared: shared.clone() }, interval_of(mode, case.arg(3).list().len()));
    let mut handles: Vec<WSink> = vec![sink];
    let mut guards: Vec<Option<WGuard>> = vec![];
    let mut acks = 0u64;
    let rt = rt();
    for a in case.arg(3).list() {
        match a.tag() {
            0 => {
                if let Some(hd) = handles.last() {
                    hd.send(to_item(&dec_entry(a.arg(0))).close());
                }
            }
            1 => {
                if let Some(hd) = handles.last() {
                    let ok = rt.block_on(async { tokio::time::timeout(Duration::from_secs(10), hd.flush()).await.is_ok() });
                    if ok {
                        acks += 1;
                    } else {
                        out_fail.push("flush() was not acknowledged within 10 s".to_string());
                    }
                }
            }
            2 => {
                if let Some(hd) = handles.last() {
                    let c = hd.clone();
                    handles.push(c);
                }
            }
            3 => {
                handles.pop();
            }
            4 => {
                if let Some(hd) = handles.last() {
                    guards.push(Some(to_item(&dec_entry(a.arg(0))).close_and_merge(hd.clone())));
                }
            }
            5 => {
                let g = a.arg(0).num() as usize;
                if let Some(Some(gd)) = guards.get_mut(g) {
                    // a guard owns its handle, so it can always be mutated through DerefMut
                    **gd = to_item(&dec_entry(a.arg(1)));
                }
            }
            _ => {
                let g = a.arg(0).num() as usize;
                if let Some(slot) = guards.get_mut(g) {
                    // guards with an odd index are dropped by a frame that is unwinding from a panic: merge-on-drop
                    // must merge all the same
                    if let Some(x) = slot.take() { crate::common::drop_placed(x, g % 2 == 1); }
                }
            }
        }
        // let the worker catch up so that batches do not depend on the OS schedule (mode 0: it only
        // reacts to messages; mode 1 flushes after every entry anyway)
    }
    for g in guards.iter_mut() {
        drop(g.take());
    }
    drop(handles);
    let exited = match await_exit(&shared, Duration::from_secs(10)) {
        Ok(()) => true,
        Err(spins) => {
            WORKER_BROKEN.store(true, Ordering::SeqCst);
            out_fail.push(format!(
                "worker thread still running 10 s after its last handle was dropped (inner sink never dropped; {} flush calls in the following 20 ms, {} in total)",
                spins,
                shared.flushes.load(Ordering::SeqCst)
            ));
            false
        }
    };
    let lv = shared.leaves.lock().unwrap();
    let enc = enc_leaves(0, &lv);
    Sx::L(vec![if mode == 1 { drop_empty(enc) } else { enc }, sx::n(acks), sx::boolean(exited)])
}

// ------------------------------------------------------------------------------------------ real threads

/// tag 4: several producer threads on one WorkerSink.  Each thread owns a handle clone and runs its script;
/// the order in which the worker thread calls the inner sink is recorded (Rec) and reported.
/// observed: (log leaves (ack snapshots per thread) exited)
fn exec_worker_thr(case: &Sx, out_fail: &mut Vec<String>) -> Sx {
    let mode = case.arg(2).num();
    let shared = Arc::new(RecShared::default());
    let mut leaves = vec![];
    let tree = build_tree(case.arg(1), &mut leaves, &None);
    *shared.leaves.lock().unwrap() = leaves;
    let sink: WSink = WorkerSink::new(Rec { inner: tree, shared: shared.clone() }, interval_of(mode, case.arg(3).list().len()));
    let scripts: Vec<Sx> = case.arg(3).list().to_vec();
    let start = Arc::new(std::sync::Barrier::new(scripts.len()));
    let mut joins = vec![];
    for sc in scripts {
        let hd = sink.clone();
        let start = start.clone();
        let shared = shared.clone();
        joins.push(std::thread::spawn(move || {
            let rt = rt();
            let mut guards: Vec<Option<WGuard>> = vec![];
            let mut snaps: Vec<Sx> = vec![];
            let mut problems: Vec<String> = vec![];
            start.wait();
            for a in sc.list() {
                match a.tag() {
                    0 => hd.send(to_item(&dec_entry(a.arg(0))).close()),
                    1 => {
                        let ok = rt.block_on(async { tokio::time::timeout(Duration::from_secs(10), hd.flush()).await.is_ok() });
                        if !ok {
                            problems.push("flush() was not acknowledged within 10 s".to_string());
                        }
                        snaps.push(sx::n(shared.trace.lock().unwrap().len() as u64));
                    }
                    4 => guards.push(Some(to_item(&dec_entry(a.arg(0))).close_and_merge(hd.clone()))),
                    5 => {
                        if let Some(Some(gd)) = guards.get_mut(a.arg(0).num() as usize) {
                            **gd = to_item(&dec_entry(a.arg(1)));
                        }
                    }
                    6 => {
                        if let Some(slot) = guards.get_mut(a.arg(0).num() as usize) {
                            // odd guard indices: dropped by a frame that is unwinding from a panic
                            if let Some(x) = slot.take() { crate::common::drop_placed(x, a.arg(0).num() % 2 == 1); }
                        }
                    }
                    8 => std::thread::sleep(Duration::from_micros(a.arg(0).num() as u64)),
                    _ => {}
                }
            }
            for g in guards.iter_mut() {
                drop(g.take());
            }
            drop(hd);
            (Sx::L(snaps), problems)
        }));
    }
    drop(sink);
    let mut snaps = vec![];
    for j in joins {
        match j.join() {
            Ok((s, p)) => {
                snaps.push(s);
                out_fail.extend(p);
            }
            Err(_) => {
                snaps.push(Sx::L(vec![]));
                out_fail.push("a producer thread panicked".to_string());
            }
        }
    }
    let exited = match await_exit(&shared, Duration::from_secs(10)) {
        Ok(()) => true,
        Err(spins) => {
            WORKER_BROKEN.store(true, Ordering::SeqCst);
            out_fail.push(format!(
                "worker thread still running 10 s after its last handle was dropped (inner sink never dropped; {} flush calls in the following 20 ms)",
                spins
            ));
            false
        }
    };
    let lv = shared.leaves.lock().unwrap();
    let enc = enc_leaves(0, &lv);
    let log: Vec<Sx> = shared.trace.lock().unwrap().iter().map(|&i| sx::n(i)).collect();
    Sx::L(vec![Sx::L(log), if mode == 0 { enc } else { drop_empty(enc) }, Sx::L(snaps), sx::boolean(exited)])
}

/// the aggregate behind the mutex, recording (under the lock) what it is asked to do
pub struct RecM {
    inner: Aggregate<Plain>,
}
static MUTEX_LOG: Mutex<Vec<u64>> = Mutex::new(Vec::new());
static MUTEX_CLOSES: AtomicU64 = AtomicU64::new(0);
impl Default for RecM {
    fn default() -> Self {
        RecM { inner: Aggregate::default() }
    }
}
impl AggregateSink<PlainEntry> for RecM {
    fn merge(&mut self, e: PlainEntry) {
        #[allow(deprecated)]
        let id = e.last;
        MUTEX_LOG.lock().unwrap().push(id);
        self.inner.merge(e);
    }
}
impl CloseValue for RecM {
    type Closed = (u64, TestEntry);
    fn close(self) -> Self::Closed {
        MUTEX_LOG.lock().unwrap().push(FLUSH_MARK);
        let k = MUTEX_CLOSES.fetch_add(1, Ordering::SeqCst);
        (k, test_metric(self.inner))
    }
}
type MSink = metrique_aggregation::sink::MutexSink<RecM>;
type MGuard = metrique_aggregation::sink::CloseAndMergeOnDrop<Plain, MSink>;

/// tag 2: several threads on one MutexSink<Aggregate<Plain>>: direct merges, guards, closes on clones.
/// observed: (log (closed aggregates in lock order))
fn exec_mutex(case: &Sx, out_fail: &mut Vec<String>) -> Sx {
    use metrique_aggregation::traits::RootSink;
    MUTEX_LOG.lock().unwrap().clear();
    MUTEX_CLOSES.store(0, Ordering::SeqCst);
    let sink: MSink = MSink::new(RecM::default());
    let scripts: Vec<Sx> = case.arg(1).list().to_vec();
    let start = Arc::new(std::sync::Barrier::new(scripts.len().max(1)));
    let closes: Arc<Mutex<Vec<(u64, TestEntry)>>> = Default::default();
    let mut joins = vec![];
    for sc in scripts {
        let hd = sink.clone();
        let start = start.clone();
        let closes = closes.clone();
        joins.push(std::thread::spawn(move || {
            let mut guards: Vec<Option<MGuard>> = vec![];
            start.wait();
            for a in sc.list() {
                match a.tag() {
                    0 => RootSink::merge(&hd, to_plain(&dec_entry(a.arg(0))).close()),
                    4 => guards.push(Some(to_plain(&dec_entry(a.arg(0))).close_and_merge(hd.clone()))),
                    5 => {
                        if let Some(Some(gd)) = guards.get_mut(a.arg(0).num() as usize) {
                            **gd = to_plain(&dec_entry(a.arg(1)));
                        }
                    }
                    6 => {
                        if let Some(slot) = guards.get_mut(a.arg(0).num() as usize) {
                            // odd guard indices: dropped by a frame that is unwinding from a panic
                            if let Some(x) = slot.take() { crate::common::drop_placed(x, a.arg(0).num() % 2 == 1); }
                        }
                    }
                    7 => closes.lock().unwrap().push(hd.clone().close()),
                    8 => std::thread::sleep(Duration::from_micros(a.arg(0).num() as u64)),
                    _ => {}
                }
            }
            for g in guards.iter_mut() {
                drop(g.take());
            }
        }));
    }
    for j in joins {
        if j.join().is_err() {
            out_fail.push("a thread panicked".to_string());
        }
    }
    closes.lock().unwrap().push(sink.close());
    let mut cl = closes.lock().unwrap().clone();
    cl.sort_by_key(|c| c.0);
    let log: Vec<Sx> = MUTEX_LOG.lock().unwrap().iter().map(|&i| sx::n(i)).collect();
    Sx::L(vec![Sx::L(log), Sx::L(cl.iter().map(|c| enc_agg(0, &c.1)).collect())])
}

/// tag 5: a schedule of the mutex LTS executed label by label on a real MutexSink<Aggregate<Plain>>
/// (every label is one critical section or a thread-local guard action, so program order = schedule)
fn exec_mutex_seq(case: &Sx) -> Sx {
    use metrique_aggregation::traits::RootSink;
    type PSink = metrique_aggregation::sink::MutexSink<Aggregate<Plain>>;
    let sink: PSink = PSink::new(Aggregate::default());
    let mut guards: Vec<Option<metrique_aggregation::sink::CloseAndMergeOnDrop<Plain, PSink>>> = vec![];
    let mut closes = vec![];
    for a in case.arg(1).list() {
        match a.tag() {
            0 => RootSink::merge(&sink, to_plain(&dec_entry(a.arg(0))).close()),
            4 => guards.push(Some(to_plain(&dec_entry(a.arg(0))).close_and_merge(sink.clone()))),
            5 => {
                if let Some(Some(gd)) = guards.get_mut(a.arg(0).num() as usize) {
                    **gd = to_plain(&dec_entry(a.arg(1)));
                }
            }
            6 => {
                if let Some(slot) = guards.get_mut(a.arg(0).num() as usize) {
                    if let Some(x) = slot.take() { crate::common::drop_placed(x, a.arg(0).num() % 2 == 1); }
                }
            }
            _ => closes.push(enc_agg(0, &test_metric(sink.clone()))),
        }
    }
    closes.push(enc_agg(0, &test_metric(sink.clone())));
    // guards still alive are dropped only now: what they merge is never closed, hence not observed
    drop(guards);
    Sx::L(closes)
}

pub fn exec(case: &Sx, fails: &mut Vec<String>) -> (Sx, bool) {
    let r = catch(|| match case.tag() {
        0 => exec_tree(case),
        3 => exec_worker_det(case, fails),
        2 => exec_mutex(case, fails),
        4 => exec_worker_thr(case, fails),
        5 => exec_mutex_seq(case),
        _ => exec_embedded(case),
    });
    let nontrivial = match case.tag() {
        0 => {
            let ops = case.arg(2).list();
            ops.iter().filter(|o| o.tag() != 1).count() >= 2 && ops.iter().any(|o| o.tag() == 1)
        }
        3 => {
            let sc = case.arg(3).list();
            sc.iter().filter(|a| matches!(a.tag(), 0 | 6)).count() >= 2
        }
        2 | 4 => {
            let scs = if case.tag() == 2 { case.arg(1).list() } else { case.arg(3).list() };
            scs.iter().map(|sc| sc.list().iter().filter(|a| matches!(a.tag(), 0 | 4)).count()).sum::<usize>() >= 2
        }
        5 => case.arg(1).list().iter().filter(|a| matches!(a.tag(), 0 | 6)).count() >= 2,
        _ => case.arg(1).list().len() >= 2,
    };
    (r.unwrap_or(sx::tag(99, vec![])), nontrivial)
}

// ------------------------------------------------------------------------------------------ generators

struct Gen {
    rng: Rng,
    next_id: u64,
}
impl Gen {
    fn names(&mut self, k: usize) -> Vec<Vec<u8>> {
        // prefixes of one another, equal lengths, the empty string: every comparison path of the key
        let base: Vec<Vec<u8>> = vec![b"".to_vec(), b"a".to_vec(), b"ab".to_vec(), b"abc".to_vec(), b"abd".to_vec(), b"b".to_vec(), b"ba".to_vec()];
        let mut v = vec![];
        for i in 0..k {
            if i < base.len() && self.rng.chance(2, 3) {
                v.push(base[i].clone());
            } else {
                let len = self.rng.range(1, 6) as usize;
                let mut s: Vec<u8> = (0..len).map(|_| b'a' + self.rng.below(4) as u8).collect();
                if k > 20 {
                    s.extend_from_slice(format!("{i}").as_bytes());
                }
                v.push(s);
            }
        }
        v
    }
    fn entry(&mut self, ty: u64, names: &[Vec<u8>], nshards: u64, big: bool) -> WEntry {
        let id = self.next_id;
        self.next_id += 1;
        let r = &mut self.rng;
        let val = |r: &mut Rng| if big && r.chance(1, 3) { r.range(0, 1 << 40) } else { r.range(0, 9) };
        let obs = |r: &mut Rng| if big && r.chance(1, 4) { r.range(0, 1 << 31) } else { r.range(0, 4) };
        let name = r.pick(names).clone();
        let shard = if nshards > 200 { r.below(256) as u8 } else { r.below(nshards) as u8 };
        if ty == 1 {
            let n = if r.chance(1, 4) { 0 } else { r.range(1, 4) };
            WEntry { id, name, shard, sums: vec![val(r), val(r)], lasts: vec![], dists: vec![vec![obs(r)], (0..n).map(|_| obs(r)).collect()] }
        } else if ty == 2 {
            WEntry { id, name: vec![], shard: 0, sums: vec![val(r), val(r)], lasts: vec![], dists: vec![vec![obs(r)]] }
        } else {
            WEntry {
                id,
                name,
                shard,
                sums: vec![val(r), val(r)],
                lasts: vec![Some(id), if r.chance(1, 2) { Some(val(r)) } else { None }],
                dists: vec![vec![obs(r)], if r.chance(1, 2) { vec![obs(r)] } else { vec![] }, vec![obs(r)]],
            }
        }
    }
}

fn gen_tree(rng: &mut Rng) -> Sx {
    let kf = |rng: &mut Rng| match rng.below(3) {
        0 => sx::tag(0, vec![]),
        1 => sx::tag(1, vec![]),
        _ => sx::tag(2, vec![sx::n(THRESH)]),
    };
    let keyed = |rng: &mut Rng| sx::tag(0, vec![kf(rng)]);
    match rng.below(6) {
        0 | 1 => sx::tag(0, vec![sx::tag(0, vec![])]),
        2 => sx::tag(2, vec![keyed(rng), sx::tag(1, vec![])]),
        3 => sx::tag(2, vec![keyed(rng), keyed(rng)]),
        4 => sx::tag(2, vec![keyed(rng), sx::tag(2, vec![keyed(rng), sx::tag(1, vec![])])]),
        _ => sx::tag(2, vec![keyed(rng), sx::tag(2, vec![keyed(rng), keyed(rng)])]),
    }
}

fn tree_case(ty: u64, tree: Sx, ops: Vec<Sx>) -> Sx {
    sx::tag(0, vec![enc_shape(ty), tree, Sx::L(ops)])
}

fn describe(out: &mut Out, case: &Sx) {
    match case.tag() {
        0 => {
            let ops = case.arg(2).list();
            let merges = ops.iter().filter(|o| o.tag() != 1).count();
            let flushes = ops.len() - merges;
            let mut keys = std::collections::HashSet::new();
            for o in ops.iter().filter(|o| o.tag() != 1) {
                let e = dec_entry(o.arg(0));
                keys.insert((e.name, e.shard));
            }
            out.count(&format!("tree_merges_{}", bucket(merges as u64)));
            out.count(&format!("tree_flushes_{}", bucket(flushes as u64)));
            out.count(&format!("tree_distinct_keys_{}", bucket(keys.len() as u64)));
            out.count(&format!("tree_shape_{}", tree_name(case.arg(1))));
            out.count(if ty_of_shape(case.arg(0)) == 1 { "type_outer_flatten" } else { "type_item" });
            out.add("ops_merge_ref", ops.iter().filter(|o| o.tag() == 2).count() as u64);
            out.add("ops_merge", ops.iter().filter(|o| o.tag() == 0).count() as u64);
            out.add("ops_flush", flushes as u64);
        }
        3 => {
            let sc = case.arg(3).list();
            out.count(&format!("worker_det_mode_{}", case.arg(2).num()));
            out.count(&format!("worker_det_actions_{}", bucket(sc.len() as u64)));
            out.count(&format!("worker_det_tree_{}", tree_name(case.arg(1))));
            for a in sc {
                out.count(match a.tag() { 0 => "wact_send", 1 => "wact_flush", 2 => "wact_clone", 3 => "wact_drop_handle", 4 => "wact_guard_new", 5 => "wact_guard_set", _ => "wact_guard_drop" });
            }
        }
        5 => {
            let ls = case.arg(1).list();
            out.count(&format!("mutex_schedule_labels_{}", bucket(ls.len() as u64)));
            for a in ls {
                out.count(match a.tag() { 0 => "mlabel_merge", 4 => "mlabel_guard_new", 5 => "mlabel_guard_set", 6 => "mlabel_guard_drop", _ => "mlabel_close" });
            }
        }
        2 | 4 => {
            let scs = if case.tag() == 2 { case.arg(1).list() } else { case.arg(3).list() };
            let kind = if case.tag() == 2 { "mutex" } else { "worker" };
            out.count(&format!("{kind}_thr_threads_{}", scs.len()));
            if case.tag() == 4 {
                out.count(&format!("worker_thr_mode_{}", case.arg(2).num()));
                out.count(&format!("worker_thr_tree_{}", tree_name(case.arg(1))));
            }
            let n: usize = scs.iter().map(|sc| sc.list().len()).sum();
            out.count(&format!("{kind}_thr_actions_{}", bucket(n as u64)));
            for sc in scs {
                for a in sc.list() {
                    out.count(&format!("{kind}_thr_act_{}", match a.tag() { 0 => "send", 1 => "flush", 4 => "guard_new", 5 => "guard_set", 6 => "guard_drop", 7 => "close", _ => "sleep" }));
                }
            }
        }
        _ => {
            out.count(&format!("embedded_inserts_{}", bucket(case.arg(1).list().len() as u64)));
            out.count(match ty_of_shape(case.arg(0)) { 0 => "embedded_type_plain", 1 => "embedded_type_outer_flatten", _ => "embedded_type_direct_merge_on_drop" });
        }
    }
}
fn bucket(n: u64) -> &'static str {
    match n {
        0 => "0",
        1 => "1",
        2..=4 => "2-4",
        5..=16 => "5-16",
        17..=64 => "17-64",
        65..=256 => "65-256",
        _ => "257+",
    }
}
fn tree_name(t: &Sx) -> String {
    match t.tag() {
        0 => format!("K{}", t.arg(0).tag()),
        1 => "R".to_string(),
        _ => format!("T({},{})", tree_name(t.arg(0)), tree_name(t.arg(1))),
    }
}

pub fn run(ctx: &Ctx) {
    crate::common::quiet_panics();
    let mut out = Out::new(ctx, "");
    let mut out_thr = Out::new(ctx, "-thr");
    let emit = |out: &mut Out, case: Sx| {
        if matches!(case.tag(), 3 | 4) && WORKER_BROKEN.load(Ordering::SeqCst) {
            // every further worker case would leak another spinning thread and wait for its deadline
            out.count("worker_cases_skipped_after_failure");
            return;
        }
        describe(out, &case);
        let mut fails = vec![];
        let (imp, nt) = exec(&case, &mut fails);
        if matches!(case.tag(), 2 | 4) {
            // how concurrent was the observed linearisation: switches between producing threads
            let ids: Vec<u64> = imp.list().first().map(|l| l.list().iter().map(|x| x.num() as u64).filter(|&i| i != FLUSH_MARK).collect()).unwrap_or_default();
            let sw = ids.windows(2).filter(|w| (w[0] >> 20) != (w[1] >> 20)).count();
            out.count(&format!("{}_thr_thread_switches_in_log_{}", if case.tag() == 2 { "mutex" } else { "worker" }, bucket(sw as u64)));
        }
        out.case(&case, &imp, nt);
        for f in fails {
            out.fail(f, &case);
        }
    };
    if let Some(p) = &ctx.replay {
        for line in std::fs::read_to_string(p).unwrap().lines().filter(|l| l.starts_with('(')) {
            let case = sx::parse(line);
            if matches!(case.tag(), 2 | 4) { emit(&mut out_thr, case) } else { emit(&mut out, case) }
        }
        out.finish("replay");
        out_thr.finish("replay");
        return;
    }
    let mut g = Gen { rng: Rng::new(ctx.seed), next_id: 1 };

    // exhaustive small space: every sequence up to the depth over {4 entries on 2 keys, flush}
    let depth = if ctx.tier_thorough { 6 } else { 5 };
    let alpha: Vec<WEntry> = vec![
        WEntry { id: 1, name: b"a".to_vec(), shard: 0, sums: vec![1, 7], lasts: vec![Some(1), None], dists: vec![vec![3], vec![], vec![1]] },
        WEntry { id: 2, name: b"a".to_vec(), shard: 0, sums: vec![6, 0], lasts: vec![Some(2), Some(9)], dists: vec![vec![3], vec![2], vec![9]] },
        WEntry { id: 3, name: b"b".to_vec(), shard: 0, sums: vec![2, 1], lasts: vec![Some(3), Some(4)], dists: vec![vec![1], vec![5], vec![2]] },
        WEntry { id: 4, name: b"a".to_vec(), shard: 1, sums: vec![5, 5], lasts: vec![Some(4), None], dists: vec![vec![0], vec![], vec![0]] },
    ];
    let tee = sx::tag(2, vec![sx::tag(0, vec![sx::tag(2, vec![sx::n(THRESH)])]), sx::tag(2, vec![sx::tag(0, vec![sx::tag(0, vec![])]), sx::tag(1, vec![])])]);
    let mut idx = vec![0usize; 0];
    loop {
        // idx is a counter in base 5 of variable length
        let ops: Vec<Sx> = idx.iter().map(|&i| if i == 4 { sx::tag(1, vec![]) } else { sx::tag(0, vec![enc_entry(&alpha[i])]) }).collect();
        out.count("exhaustive_small");
        emit(&mut out, tree_case(0, tee.clone(), ops));
        let mut p = 0;
        loop {
            if p == idx.len() {
                idx.push(0);
                break;
            }
            idx[p] += 1;
            if idx[p] < 5 {
                break;
            }
            idx[p] = 0;
            p += 1;
        }
        if idx.len() > depth {
            break;
        }
    }

    // random histories
    let n = if ctx.tier_thorough { 6000 } else { 700 };
    for i in 0..n {
        let ty = if g.rng.chance(1, 5) { 1 } else { 0 };
        let nkeys = *g.rng.pick(&[1usize, 2, 3, 5, 8, 40, 300]);
        let nkeys = if i % 50 == 7 { 600 } else { nkeys };
        let names = g.names(nkeys);
        let nshards = *g.rng.pick(&[1u64, 1, 2, 3, 256]);
        let len = if nkeys >= 300 { g.rng.range(300, if ctx.tier_thorough { 3000 } else { 1200 }) } else { *g.rng.pick(&[0u64, 1, 3, 8, 20, 60, 150]) + g.rng.below(5) };
        let flush_den = *g.rng.pick(&[3u64, 10, 40, 1000]);
        let big = g.rng.chance(1, 2);
        let tree = if ty == 1 { sx::tag(0, vec![sx::tag(0, vec![])]) } else { gen_tree(&mut g.rng) };
        let root_keyed = tree.tag() == 0;
        let mut ops = vec![];
        for _ in 0..len {
            if g.rng.chance(1, flush_den) {
                ops.push(sx::tag(1, vec![]));
                if g.rng.chance(1, 6) {
                    ops.push(sx::tag(1, vec![]));
                }
            } else {
                let e = g.entry(ty, &names, nshards, big);
                let by_ref = ty == 0 && root_keyed && g.rng.chance(1, 2);
                ops.push(sx::tag(if by_ref { 2 } else { 0 }, vec![enc_entry(&e)]));
            }
        }
        emit(&mut out, tree_case(ty, tree, ops));
    }
    // many keys held by one keyed aggregator at a flush (the flush walks the whole table; tables of this size have
    // grown several times): every key entered once, then a random second pass, one flush, a few more, a last flush
    // (the model's tables are association lists: its cost is quadratic in the number of keys)
    let sizes: &[(usize, u64, u64)] =
        if ctx.tier_thorough { &[(1025, 0, 2), (4097, 0, 2), (5000, 0, 2), (9000, 0, 2), (12_000, 0, 1)] } else { &[(4200, 0, 1)] };
    for &(nkeys, lo, hi) in sizes {
        for shape in lo..hi {
            let names = g.names(nkeys);
            let tree = if shape == 0 { sx::tag(0, vec![sx::tag(0, vec![])]) } else { gen_tree(&mut g.rng) };
            let root_keyed = tree.tag() == 0;
            let mut ops = vec![];
            for nm in names.iter() {
                let mut e = g.entry(0, &names, 1, false);
                e.name = nm.clone();
                let by_ref = root_keyed && g.rng.chance(1, 2);
                ops.push(sx::tag(if by_ref { 2 } else { 0 }, vec![enc_entry(&e)]));
            }
            for _ in 0..nkeys / 3 {
                let e = g.entry(0, &names, 1, false);
                ops.push(sx::tag(0, vec![enc_entry(&e)]));
            }
            ops.push(sx::tag(1, vec![]));
            for _ in 0..20 {
                let e = g.entry(0, &names, 1, false);
                ops.push(sx::tag(0, vec![enc_entry(&e)]));
            }
            ops.push(sx::tag(1, vec![]));
            emit(&mut out, tree_case(0, tree, ops));
            out.count("tree_many_keys_cases");
        }
    }
    for _ in 0..(n / 4) {
        let ty = g.rng.below(3);
        let len = *g.rng.pick(&[0u64, 1, 2, 5, 30, 200]);
        let big = g.rng.chance(1, 2);
        let names = g.names(2);
        let es: Vec<Sx> = (0..len).map(|_| enc_entry(&g.entry(ty, &names, 2, big))).collect();
        emit(&mut out, sx::tag(1, vec![enc_shape(ty), Sx::L(es)]));
    }
    // worker sink, one client: scripts of sends, awaited flushes, handle clones/drops, guards
    let nw = if ctx.tier_thorough { 1500 } else { 250 };
    for i in 0..nw {
        let mode = if i % 4 == 3 { 1u64 } else { 0 };
        let nk = *g.rng.pick(&[1usize, 2, 4, 30]);
        let names = g.names(nk);
        let len = *g.rng.pick(&[0u64, 1, 3, 8, 25, 80]) + g.rng.below(4);
        let tree = gen_tree(&mut g.rng);
        let mut handles = 1u64;
        let mut guards: Vec<bool> = vec![];
        let mut sc = vec![];
        for _ in 0..len {
            let live: Vec<usize> = guards.iter().enumerate().filter(|(_, a)| **a).map(|(i, _)| i).collect();
            let r = g.rng.below(20);
            if handles == 0 {
                // only guards can still act (they own handles); sometimes poke a dead handle stack
                if let Some(&gi) = live.first() {
                    if g.rng.chance(1, 2) {
                        sc.push(sx::tag(6, vec![sx::n(gi as u64)]));
                        guards[gi] = false;
                    } else {
                        sc.push(sx::tag(5, vec![sx::n(gi as u64), enc_entry(&g.entry(0, &names, 2, false))]));
                    }
                } else {
                    break;
                }
                continue;
            }
            match r {
                0..=8 => sc.push(sx::tag(0, vec![enc_entry(&g.entry(0, &names, 2, false))])),
                9..=10 => sc.push(sx::tag(1, vec![])),
                11 => {
                    sc.push(sx::tag(2, vec![]));
                    handles += 1;
                }
                12 => {
                    // keep at least one plain handle most of the time
                    if handles > 1 || g.rng.chance(1, 8) {
                        sc.push(sx::tag(3, vec![]));
                        handles -= 1;
                    }
                }
                13..=15 => {
                    sc.push(sx::tag(4, vec![enc_entry(&g.entry(0, &names, 2, false))]));
                    guards.push(true);
                }
                16..=17 => {
                    if let Some(&gi) = live.get(g.rng.below(live.len().max(1) as u64) as usize) {
                        sc.push(sx::tag(5, vec![sx::n(gi as u64), enc_entry(&g.entry(0, &names, 2, false))]));
                    }
                }
                _ => {
                    if let Some(&gi) = live.get(g.rng.below(live.len().max(1) as u64) as usize) {
                        sc.push(sx::tag(6, vec![sx::n(gi as u64)]));
                        guards[gi] = false;
                    }
                }
            }
        }
        emit(&mut out, sx::tag(3, vec![enc_shape(0), tree, sx::n(mode), Sx::L(sc)]));
    }
    // mutex LTS schedules, executed label by label: exhaustive over a small alphabet, then random
    {
        let ea = |id: u64, c: u64, l: Option<u64>, d: u64| WEntry { id, name: vec![], shard: 0, sums: vec![c, id], lasts: vec![Some(id), l], dists: vec![vec![d], vec![], vec![d]] };
        let alpha: Vec<Sx> = vec![
            sx::tag(0, vec![enc_entry(&ea(1, 1, None, 3))]),
            sx::tag(4, vec![enc_entry(&ea(2, 2, Some(7), 3))]),
            sx::tag(5, vec![sx::n(0u64), enc_entry(&ea(3, 4, None, 1))]),
            sx::tag(6, vec![sx::n(0u64)]),
            sx::tag(7, vec![]),
            sx::tag(6, vec![sx::n(1u64)]),
        ];
        let depth = if ctx.tier_thorough { 6 } else { 5 };
        let mut idx: Vec<usize> = vec![];
        loop {
            out.count("mutex_schedule_exhaustive");
            emit(&mut out, sx::tag(5, vec![enc_shape(0), Sx::L(idx.iter().map(|&i| alpha[i].clone()).collect())]));
            let mut p = 0;
            loop {
                if p == idx.len() {
                    idx.push(0);
                    break;
                }
                idx[p] += 1;
                if idx[p] < alpha.len() {
                    break;
                }
                idx[p] = 0;
                p += 1;
            }
            if idx.len() > depth {
                break;
            }
        }
        let names = g.names(1);
        for _ in 0..(if ctx.tier_thorough { 2000 } else { 300 }) {
            let len = *g.rng.pick(&[3u64, 10, 40, 120]) + g.rng.below(5);
            let mut guards: Vec<bool> = vec![];
            let mut ls = vec![];
            for _ in 0..len {
                let live: Vec<usize> = guards.iter().enumerate().filter(|(_, a)| **a).map(|(i, _)| i).collect();
                match g.rng.below(16) {
                    0..=5 => ls.push(sx::tag(0, vec![enc_entry(&g.entry(0, &names, 1, true))])),
                    6..=8 => {
                        ls.push(sx::tag(4, vec![enc_entry(&g.entry(0, &names, 1, true))]));
                        guards.push(true);
                    }
                    9..=10 => {
                        // sometimes a dead or non-existent guard: skipped by both sides
                        let gi = if g.rng.chance(1, 8) || live.is_empty() { g.rng.below(guards.len() as u64 + 2) as usize } else { live[g.rng.below(live.len() as u64) as usize] };
                        ls.push(sx::tag(5, vec![sx::n(gi as u64), enc_entry(&g.entry(0, &names, 1, true))]));
                    }
                    11..=13 => {
                        let gi = if g.rng.chance(1, 8) || live.is_empty() { g.rng.below(guards.len() as u64 + 2) as usize } else { live[g.rng.below(live.len() as u64) as usize] };
                        ls.push(sx::tag(6, vec![sx::n(gi as u64)]));
                        if gi < guards.len() {
                            guards[gi] = false;
                        }
                    }
                    _ => ls.push(sx::tag(7, vec![])),
                }
            }
            emit(&mut out, sx::tag(5, vec![enc_shape(0), Sx::L(ls)]));
        }
    }

    // real threads: 1-4 threads on one MutexSink<Aggregate<Plain>> / one WorkerSink
    let nt = if ctx.tier_thorough { 5000 } else { 600 };
    for i in 0..nt {
        let worker = i % 2 == 0;
        let nthreads = g.rng.range(1, 4);
        let nk = *g.rng.pick(&[1usize, 2, 5, 40]);
        let names = g.names(nk);
        let mode = if worker { *g.rng.pick(&[0u64, 0, 1, 2]) } else { 0 };
        let mut scripts = vec![];
        for t in 0..nthreads {
            let len = *g.rng.pick(&[0u64, 2, 6, 20, 60]) + g.rng.below(4);
            let mut seq = 0u64;
            let mut guards: Vec<bool> = vec![];
            let mut sc = vec![];
            let mut mk = |g: &mut Gen, seq: &mut u64| {
                let mut e = g.entry(0, &names, 2, false);
                e.id = (t << 20) | *seq;
                e.lasts[0] = Some(e.id);
                *seq += 1;
                enc_entry(&e)
            };
            for _ in 0..len {
                let live: Vec<usize> = guards.iter().enumerate().filter(|(_, a)| **a).map(|(i, _)| i).collect();
                match g.rng.below(20) {
                    0..=8 => sc.push(sx::tag(0, vec![mk(&mut g, &mut seq)])),
                    9..=10 => sc.push(if worker { sx::tag(1, vec![]) } else { sx::tag(7, vec![]) }),
                    11..=13 => {
                        sc.push(sx::tag(4, vec![mk(&mut g, &mut seq)]));
                        guards.push(true);
                    }
                    14..=15 => {
                        if let Some(&gi) = live.get(g.rng.below(live.len().max(1) as u64) as usize) {
                            sc.push(sx::tag(5, vec![sx::n(gi as u64), mk(&mut g, &mut seq)]));
                        }
                    }
                    16..=17 => {
                        if let Some(&gi) = live.get(g.rng.below(live.len().max(1) as u64) as usize) {
                            sc.push(sx::tag(6, vec![sx::n(gi as u64)]));
                            guards[gi] = false;
                        }
                    }
                    _ => sc.push(sx::tag(8, vec![sx::n(g.rng.range(1, 400))])),
                }
            }
            scripts.push(Sx::L(sc));
        }
        let case = if worker {
            sx::tag(4, vec![enc_shape(0), gen_tree(&mut g.rng), sx::n(mode), Sx::L(scripts)])
        } else {
            sx::tag(2, vec![enc_shape(0), Sx::L(scripts)])
        };
        emit(&mut out_thr, case);
    }
    out_thr.finish("real threads: 1-4 threads with random scripts (merges/sends, awaited flushes, guards created / mutated / dropped in any order, closes on clones, sleeps) on one MutexSink<Aggregate> resp. one WorkerSink over a random tee tree (interval never / zero / 300 us); the linearisation recorded under the lock resp. on the worker thread is checked for per-thread FIFO and the flush barrier and replayed through the model. Non-trivial = at least two entries produced; distinct by hash of the case");
    out.finish("sink trees: every operation sequence up to the tier's depth over 4 entries on 3 keys + flush (exhaustive) on a 3-leaf tee, plus random histories (1-600 keys with collisions; and histories with 4200 (thorough: 1025 to 12000) distinct keys held at one flush, flush density 1/3..1/1000, by-ref/owned merges, 5 tree shapes, 2 source types); embedded Aggregate: random insert lists. Non-trivial = at least two merges and one flush (tree) / two inserts (embedded); distinct by hash of the case");
}
