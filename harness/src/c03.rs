//! C03 — records carry exactly the entry's values, units, counts, dimensions and time.
use crate::c02::emf::*;
use crate::common::{Ctx, Out, Rng};
use crate::sx::{self, Sx};
use metrique_writer::test_util::to_test_entry;

/// Independent oracle on the implementation side: the repo's own format-independent view of the same ScriptEntry
/// must list the same string values and metric names as the script (a check of the ScriptEntry glue).
fn check_test_entry(out: &mut Out, case_sx: &Sx, items: &[Item]) {
    let has_defect = items.iter().any(|i| matches!(i, Item::Value(_, VCall::Error(_)) | Item::Config(CItem::Unroutable)))
        || items.iter().filter(|i| matches!(i, Item::Timestamp(_))).count() > 1;
    if has_defect { return; }
    let entry = ScriptEntry::new(items);
    let te = match crate::common::catch(|| to_test_entry(&entry)) { Some(t) => t, None => { out.count("test_entry_panicked"); return; } };
    for it in items {
        match it {
            Item::Value(n, VCall::Str(s)) => { if te.values.get(n.as_str()).map(|v| v.as_str()) != Some(s.as_str()) { out.fail(format!("to_test_entry disagrees on string value {n:?}"), case_sx); } }
            Item::Value(n, VCall::Metric(os, ..)) if !os.is_empty() => { if !te.metrics.contains_key(n.as_str()) { out.fail(format!("to_test_entry lacks metric {n:?}"), case_sx); } }
            _ => {}
        }
    }
}

fn emit(out: &mut Out, case: &Case) {
    let (case_sx, imp_sx, raw) = exec_case(case, out);
    crate::c02::check_framing(out, case, &case_sx, &raw);
    let nt = crate::c02::classify(out, case, &raw);
    for call in &case.calls {
        let names: Vec<&String> = call.items.iter().filter_map(|i| if let Item::Value(n, v) = i { if !matches!(v, VCall::Nothing) { Some(n) } else { None } } else { None }).collect();
        let mut u = names.clone(); u.sort(); u.dedup();
        if u.len() == names.len() { check_test_entry(out, &case_sx, &call.items); }
    }
    out.case(&case_sx, &imp_sx, nt);
}

pub fn run(ctx: &Ctx) {
    crate::common::quiet_panics();
    let mut out = Out::new(ctx, "");
    if let Some(p) = &ctx.replay {
        for line in std::fs::read_to_string(p).unwrap().lines().filter(|l| l.starts_with('(')) { emit(&mut out, &dec_case(&sx::parse(line))); }
        out.finish("replay");
        return;
    }
    let mut rng = Rng::new(ctx.seed ^ 0x03);
    let n = if ctx.tier_thorough { 60000 } else { 5000 };
    for _ in 0..n {
        let cfg = gen_config(&mut rng);
        // the documented domain: unique names; occasional defects keep the rejected path covered
        let defects = if rng.chance(1, 10) { 3 } else { 0 };
        let items = gen_items(&mut rng, &cfg, &GenOpts { defects, allow_scripts: false, allow_split: true });
        emit(&mut out, &Case { cfg, calls: vec![Call { rate_exp: gen_rate(&mut rng), items, script: vec![] }], sorted: true });
    }
    // sequences on ONE formatter whose entries share per-metric dimension sets but differ in entry dimensions, split
    // mode and strings: each call's records must still be exactly that entry's reference documents
    let nseq = if ctx.tier_thorough { 6000 } else { 600 };
    for _ in 0..nseq {
        let cfg = gen_config(&mut rng);
        let shared_dims: Vec<Vec<(String, String)>> = (0..2).map(|_| (0..rng.range(1, 2)).map(|_| (rng.pick(&["d1", "d2", "Kind"]).to_string(), rng.pick(&["x", "y"]).to_string())).collect()).collect();
        let ncalls = rng.range(2, 4);
        let mut calls = vec![];
        for ci in 0..ncalls {
            let mut items: Vec<Item> = vec![Item::Timestamp(1_000_000 * (ci as i128 + 1)), Item::Config(CItem::Split)];
            let mut dim_names: Vec<String> = cfg.default_dims.concat();
            if rng.chance(1, 2) {
                let sets: Vec<Vec<String>> = (0..rng.range(1, 2)).map(|_| (0..rng.below(3)).map(|_| rng.pick(&["API", "Stage", "AZ"]).to_string()).collect()).collect();
                dim_names.extend(sets.concat());
                items.push(Item::Config(CItem::EntryDims(sets)));
            }
            dim_names.sort(); dim_names.dedup();
            for d in &dim_names { items.push(Item::Value(d.clone(), VCall::Str(format!("v{ci}")))); }
            for (mi, dims) in shared_dims.iter().enumerate() {
                if rng.chance(3, 4) {
                    items.push(Item::Value(format!("M{mi}_{}", rng.below(3)), VCall::Metric(gen_obs_list(&mut rng), gen_unit(&mut rng), dims.clone(), gen_flag(&mut rng))));
                }
            }
            if rng.chance(1, 2) { items.push(Item::Value(format!("G{ci}"), VCall::Metric(vec![Obs::U(ci as u64)], UnitS::None, vec![], Flag::None))); }
            calls.push(Call { rate_exp: if rng.chance(1, 6) { gen_rate(&mut rng) } else { None }, items, script: vec![] });
        }
        out.count("shared_dimension_set_sequence");
        emit(&mut out, &Case { cfg, calls, sorted: true });
    }
    // an entry whose write fails (hard error, zero-length write) somewhere in its record, then entries on the same
    // formatter: each later call's records must be exactly that entry's reference documents (nothing of the failed
    // entry — dimension sets, declarations, timestamp — may leak into them)
    let nfail = if ctx.tier_thorough { 3000 } else { 300 };
    for _ in 0..nfail {
        let cfg = gen_config(&mut rng);
        let mut calls = vec![];
        let ncalls = rng.range(2, 4);
        let fail_at = rng.below(ncalls - 1);
        for ci in 0..ncalls {
            let mut items = gen_items(&mut rng, &cfg, &GenOpts { defects: 0, allow_scripts: false, allow_split: false });
            if !has_timestamp(&items) { items.insert(0, Item::Timestamp(1_000_000 * (ci as i128 + 7))); }
            if rng.chance(1, 2) && !items.iter().any(|i| matches!(i, Item::Config(CItem::EntryDims(_)))) {
                let sets: Vec<Vec<String>> = (0..rng.range(1, 2)).map(|_| (0..rng.below(3)).map(|_| rng.pick(&["API", "Stage", "AZ"]).to_string()).collect()).collect();
                let mut names: Vec<String> = sets.concat(); names.sort(); names.dedup();
                for d in names { if !items.iter().any(|i| matches!(i, Item::Value(n, _) if *n == d)) { items.push(Item::Value(d, VCall::Str(format!("e{ci}")))); } }
                items.insert(1, Item::Config(CItem::EntryDims(sets)));
            }
            let script = if ci == fail_at {
                let mut s: Vec<Resp> = (0..rng.below(4)).map(|_| Resp::Accept(rng.range(1, 60))).collect();
                s.push(if rng.chance(1, 3) { Resp::Zero } else { Resp::Fail });
                s
            } else { vec![] };
            calls.push(Call { rate_exp: None, items, script });
        }
        out.count("io_failure_then_next_entries");
        emit(&mut out, &Case { cfg, calls, sorted: true });
    }
    // every unit, every flag, every observation class through one metric each
    for u in all_units() { for fl in [Flag::None, Flag::High, Flag::NoMetric, Flag::Foreign] { for rate in [None, Some(3)] {
        let cfg = Config { ctor: Ctor::AllValidations, namespaces: vec!["N".into(), "M".into()], default_dims: vec![vec![]], directives: vec![], log_group: None, allow_ignored: false };
        let us = if u == metrique_writer_core::Unit::None { UnitS::None } else { UnitS::Named(u) };
        let items = vec![Item::Timestamp(1_500_000), Item::Value("v".into(), VCall::Metric(vec![Obs::U(3), Obs::F(0.25f64.to_bits()), Obs::R(9.0f64.to_bits(), 4)], us, vec![], fl))];
        out.count("unit_flag_matrix");
        emit(&mut out, &Case { cfg, calls: vec![Call { rate_exp: rate, items, script: vec![] }], sorted: true });
    } } }
    out.finish("entries within the documented domain (unique names, finite or non-finite observations, any unit, per-metric dimensions with split or ignored mode, entry dimensions, flags) under random formatter configurations, plus the unit x flag x sampling matrix; the implementation's records are compared byte for byte (as a set of lines) with the printed documents of the reference interpretation Spec.emf_docs. Non-trivial as for C02; distinct by hash");
}
