//! Queue family: case generation and the two kinds of runs (scheduled = replayed through the model,
//! unscheduled = real races, predicate only) shared by C01, C04, C05 and C09.
use super::queue_core::*;
use super::queue_sched::*;
use crate::common::{Ctx, Out, Rng};
use crate::sx::{self, Sx};
use metrique_writer::sink::BackgroundQueueBuilder;
use metrique_writer::{AnyEntrySink, EntrySink};
use std::collections::HashMap;
use std::sync::atomic::{AtomicU64, Ordering};
use std::sync::{Arc, Mutex};
use std::time::{Duration, Instant};

/// What a property's run emphasises.
#[derive(Clone, Copy, PartialEq, Eq, Debug)]
pub enum Focus {
    Delivery, // C01
    Flush,    // C04
    Shutdown, // C05
    Overflow, // C09
}

/// Installs (once per process) the global tracing subscriber that disables the in-band report.
pub fn install_subscriber() {
    let _ = tracing::subscriber::set_global_default(QuietSubscriber);
}
pub fn subscriber_installed() -> bool {
    !tracing::dispatcher::get_default(|d| d.is::<tracing::subscriber::NoSubscriber>())
}

pub fn gen_plan(rng: &mut Rng, focus: Focus, big: bool) -> Plan {
    let k = match rng.below(10) {
        0..=2 => 1,
        3..=6 => 2,
        7..=8 => 3,
        _ => 4,
    } as usize;
    let mut cap = match focus {
        Focus::Overflow => rng.range(1, 4),
        _ => *rng.pick(&[1, 1, 2, 2, 3, 4, 5, 8, 8, 64]),
    } as usize;
    let mut regime = rng.below(2) as u8;
    let kind = rng.below(3) as u8;
    let mut maxops = match focus {
        Focus::Overflow => rng.range(3, 14),
        _ => rng.range(0, 10),
    } as usize;
    if big {
        // enough entries for the `count % 32` deadline test to matter
        cap = *rng.pick(&[33, 40, 64, 70]) as usize;
        maxops = rng.range(34, 80) as usize;
        regime = if rng.chance(3, 4) { 1 } else { 0 };
    }
    let p_flush = match focus {
        Focus::Flush => 30,
        Focus::Overflow => 5,
        _ => 12,
    };
    let p_clone = if focus == Focus::Shutdown { 12 } else { 5 };
    let joiner = rng.range(1, k as u64) as usize;
    let forget = regime == 1 && rng.chance(if focus == Focus::Shutdown { 2 } else { 1 }, 6);
    let mut scripts = vec![];
    for t in 1..=k {
        let n = if big && t > 1 { rng.range(0, 6) as usize } else { rng.range(0, maxops as u64) as usize };
        let mut ops = vec![];
        let mut seq = 0;
        let mut extra = 0;
        for _ in 0..n {
            let x = rng.below(100);
            if x < p_flush {
                ops.push(Op::Flush);
            } else if x < p_flush + p_clone {
                ops.push(Op::CloneH);
                extra += 1;
            } else if x < p_flush + 2 * p_clone && extra > 0 {
                ops.push(Op::DropH);
                extra -= 1;
            } else {
                ops.push(Op::Append(seq));
                seq += 1;
            }
        }
        if t == joiner {
            let pos = if rng.chance(if focus == Focus::Shutdown { 1 } else { 2 }, 3) { ops.len() } else { rng.below(ops.len() as u64 + 1) as usize };
            ops.insert(pos, if forget { Op::Forget } else { Op::DropJoin });
        }
        for _ in 0..=extra {
            ops.push(Op::DropH);
        }
        scripts.push(ops);
    }
    let (pv, pio) = *rng.pick(&[(0, 0), (0, 0), (15, 0), (10, 10), (40, 20)]);
    let mut results = vec![];
    for (i, s) in scripts.iter().enumerate() {
        for o in s {
            if let Op::Append(n) = o {
                let x = rng.below(100);
                if x < pv {
                    results.push((i as u64 + 1, *n, R_VAL));
                } else if x < pv + pio {
                    results.push((i as u64 + 1, *n, R_IO));
                }
            }
        }
    }
    let mut failing_flushes = vec![];
    if rng.chance(1, 4) {
        for _ in 0..rng.range(1, 3) {
            failing_flushes.push(rng.below(12));
        }
    }
    Plan { cap, kind, regime, scripts, joiner, results, report_result: rng.below(3) as u8, failing_flushes }
}

/// C04: the ring is (nearly) full when the flush request is made, the deadline is hit every 32 entries, and
/// producers keep appending: the request can only be woken by the counter protocol.
pub fn gen_flush_big(rng: &mut Rng) -> Plan {
    let cap = *rng.pick(&[33usize, 40, 64, 70, 100]);
    let mut ops = vec![];
    let mut seq = 0;
    for _ in 0..(cap as u64 + rng.range(0, 8)) {
        ops.push(Op::Append(seq));
        seq += 1;
    }
    ops.push(Op::Flush);
    for _ in 0..rng.range(0, 70) {
        if rng.chance(1, 12) {
            ops.push(Op::Flush);
        } else {
            ops.push(Op::Append(seq));
            seq += 1;
        }
    }
    ops.push(Op::DropJoin);
    ops.push(Op::DropH);
    let mut scripts = vec![ops];
    if rng.chance(1, 2) {
        let mut o2 = vec![];
        for i in 0..rng.range(0, 20) {
            o2.push(if rng.chance(1, 6) { Op::Flush } else { Op::Append(i) });
        }
        o2.push(Op::DropH);
        scripts.push(o2);
    }
    Plan { cap, kind: rng.below(3) as u8, regime: 1, scripts, joiner: 1, results: vec![], report_result: 0, failing_flushes: vec![] }
}

/// C04: the ring is filled, the writer pops part of a drain pass, the producer refills what was popped and then
/// asks for a flush — the request is collected by a pass whose own pops say nothing about what is queued now.
/// Returns the plan and the wish list of scheduling choices that produces the phases.
pub fn gen_flush_refill(rng: &mut Rng) -> (Plan, Vec<usize>) {
    let cap = *rng.pick(&[33usize, 40, 64, 70]);
    let fill = cap as u64 + rng.range(0, 8);
    let refill = rng.range(1, 40);
    let mut ops = vec![];
    let mut seq = 0;
    for _ in 0..fill + refill {
        ops.push(Op::Append(seq));
        seq += 1;
    }
    ops.push(Op::Flush);
    for _ in 0..rng.range(0, 4) {
        ops.push(Op::Append(seq));
        seq += 1;
    }
    ops.push(Op::DropJoin);
    ops.push(Op::DropH);
    // an append and a flush request are two grants each (operation, then unpark); the writer needs two or three per entry
    let mut wish = vec![1usize; (2 * fill) as usize + 1];
    wish.extend(std::iter::repeat(0).take(rng.range(3, 100) as usize));
    wish.extend(std::iter::repeat(1).take((2 * refill + 2) as usize));
    wish.extend(std::iter::repeat(0).take(rng.range(0, 200) as usize));
    (Plan { cap, kind: rng.below(3) as u8, regime: 1, scripts: vec![ops], joiner: 1, results: vec![], report_result: 0, failing_flushes: vec![] }, wish)
}

/// C05: more than 32 entries are queued when the join handle is dropped (the shutdown drain re-checks its
/// deadline every 32 entries), appends and flush requests continue during and after the shutdown.
pub fn gen_shutdown_big(rng: &mut Rng) -> Plan {
    let cap = *rng.pick(&[40usize, 64, 100]);
    let mut ops = vec![];
    let mut seq = 0;
    for _ in 0..rng.range(33, cap as u64) {
        ops.push(Op::Append(seq));
        seq += 1;
    }
    if rng.chance(1, 2) {
        ops.push(Op::Flush);
    }
    let forget = rng.chance(1, 4);
    ops.push(if forget { Op::Forget } else { Op::DropJoin });
    for _ in 0..(if forget { 0 } else { rng.range(0, 5) }) {
        ops.push(Op::Append(seq));
        seq += 1;
    }
    ops.push(Op::DropH);
    Plan { cap, kind: rng.below(3) as u8, regime: 1, scripts: vec![ops], joiner: 1, results: vec![], report_result: 0, failing_flushes: vec![] }
}

/// scheduled runs in which a thread never arrived where it had to (each costs a 5 s time-out): after a few of
/// them the remaining scheduled cases are skipped — the failures found are reported, the check stays bounded
pub static STUCK_RUNS: AtomicU64 = AtomicU64::new(0);
pub fn too_many_stuck() -> bool {
    STUCK_RUNS.load(Ordering::SeqCst) >= 4
}

pub struct SchedStats {
    pub overflowed: bool,
    pub flushes: usize,
    pub errors: usize,
    pub producers: usize,
    pub appended: u64,
    pub interleaved: bool,
}

fn stats(plan: &Plan, r: &RunResult) -> SchedStats {
    let mut last_tag = u128::MAX;
    let mut switches = 0;
    for s in &r.steps {
        let t = if s.label.tag() == 9 { 9 } else { 0 };
        if t != last_tag {
            switches += 1;
            last_tag = t;
        }
    }
    SchedStats {
        overflowed: r.steps.iter().any(|s| s.events.contains(&Ev::Over)),
        flushes: r.steps.iter().filter(|s| s.label.tag() == 2).count(),
        errors: plan.results.len(),
        producers: plan.scripts.iter().filter(|s| s.iter().any(|o| matches!(o, Op::Append(_)))).count(),
        appended: r.appended,
        interleaved: switches >= 4,
    }
}

/// Executes one scheduled case (fresh or replayed) and writes it out.
pub fn emit_scheduled(out: &mut Out, plan: &Plan, rng: &mut Rng, replay: Option<&[usize]>, bias: u64) {
    let nosub = !subscriber_installed();
    let r = run_scheduled(plan, rng, replay, bias);
    let case = case_sx(plan, nosub, &r);
    let imp = impl_sx(&r);
    let st = stats(plan, &r);
    out.count(&format!("sched_cap_{}", if plan.cap > 8 { "big".to_string() } else { plan.cap.to_string() }));
    out.count(&format!("sched_threads_{}", plan.scripts.len()));
    out.count(&format!("sched_kind_{}", ["typed", "boxed_any", "boxed_sink"][plan.kind as usize]));
    out.count(if plan.regime == 0 { "sched_regime_long_interval" } else { "sched_regime_1us_interval" });
    out.count(if nosub { "sched_no_subscriber" } else { "sched_with_subscriber" });
    if st.overflowed { out.count("sched_runs_with_overflow"); }
    if st.flushes > 0 { out.count("sched_runs_with_flush_requests"); }
    if st.errors > 0 { out.count("sched_runs_with_stream_errors"); }
    if plan.scripts.iter().any(|s| s.contains(&Op::Forget)) { out.count("sched_runs_with_forget"); }
    if plan.scripts.iter().any(|s| s.last() != Some(&Op::DropH) || s.iter().rev().skip_while(|o| **o == Op::DropH).next() != Some(&Op::DropJoin) && s.contains(&Op::DropJoin)) {
        out.count("sched_runs_with_ops_after_shutdown");
    }
    out.add("sched_labels", r.steps.len() as u64);
    out.add("sched_grants", r.grants as u64);
    out.add("sched_entries_appended", r.appended);
    for s in &r.steps {
        for e in &s.events {
            match e {
                Ev::Report(_) => out.count("sched_in_band_reports"),
                Ev::Wake(_) => out.count("sched_wakes_observed"),
                Ev::Over => out.count("sched_overflow_events"),
                Ev::Alien => out.fail("the stream received an entry that is neither an appended entry nor the in-band report".into(), &case),
                _ => {}
            }
        }
        if s.label.tag() == 9 && s.label.arg(2).num() == 1 {
            out.count("sched_deadline_hits");
        }
    }
    if r.end != "complete" {
        out.count(&format!("sched_end: {}", r.end));
    }
    if let Some(d) = &r.diverged {
        out.fail(d.clone(), &case);
    }
    if r.end != "complete" && r.end != "writer parked, nobody left to wake it" {
        out.fail(format!("scheduled run did not complete: {}", r.end), &case);
        if r.end.contains("did not") {
            STUCK_RUNS.fetch_add(1, Ordering::SeqCst);
        }
    }
    let nontrivial = st.appended >= 3 && st.interleaved && (st.overflowed || st.flushes > 0 || st.errors > 0 || st.producers >= 2);
    out.case(&case, &imp, nontrivial);
}

pub fn replay_line(out: &mut Out, line: &str, rng: &mut Rng) {
    let case = sx::parse(line);
    match case.tag() {
        0 => {
            let plan = Plan::from_sx(case.arg(3));
            let choices: Vec<usize> = case.arg(4).list().iter().map(|c| c.num() as usize).collect();
            let want_nosub = case.arg(1).num() == 1;
            if !want_nosub {
                install_subscriber();
            }
            if want_nosub != !subscriber_installed() {
                out.notes.push("replay: tracing-subscriber state differs from the recorded run (a subscriber cannot be uninstalled)".into());
            }
            emit_scheduled(out, &plan, rng, Some(&choices), 4);
        }
        _ => {
            let p = StressPlan::from_sx(&case);
            emit_stress(out, &p);
        }
    }
}

// ------------------------------------------------------------------------------------------ unscheduled runs

/// Real threads, real races: `threads` producers append `per_thread` entries each (ids (t, 0..n)) as fast as
/// they can, optionally while the writer is held inside `stream.next`, with flush requests sprinkled in;
/// then the queue is shut down through its join handle.  Only the predicate is checked.
#[derive(Clone)]
pub struct StressPlan {
    pub cap: usize,
    pub kind: u8,
    pub threads: usize,
    pub per_thread: usize,
    /// hold the writer (gate closed) until every producer is done
    pub stall: bool,
    pub flush_every: usize,
    pub interval_us: u64,
    pub val_every: u64,
    pub seed: u64,
}
impl StressPlan {
    pub fn sx(&self) -> Sx {
        sx::tag(1, vec![sx::n(self.cap as u64), sx::n(self.kind), sx::n(self.threads as u64), sx::n(self.per_thread as u64),
                        sx::boolean(self.stall), sx::n(self.flush_every as u64), sx::n(self.interval_us), sx::n(self.val_every), sx::n(self.seed)])
    }
    pub fn from_sx(x: &Sx) -> StressPlan {
        StressPlan {
            cap: x.arg(0).num() as usize, kind: x.arg(1).num() as u8, threads: x.arg(2).num() as usize,
            per_thread: x.arg(3).num() as usize, stall: x.arg(4).num() == 1, flush_every: x.arg(5).num() as usize,
            interval_us: x.arg(6).num() as u64, val_every: x.arg(7).num() as u64, seed: x.arg(8).num() as u64,
        }
    }
}

pub fn gen_stress(rng: &mut Rng, focus: Focus, thorough: bool) -> StressPlan {
    let threads = *rng.pick(&[1, 2, 4, 8, 8, 16]) as usize;
    let per_thread = *rng.pick(if thorough { &[10, 100, 500, 1000][..] } else { &[10, 50, 200][..] }) as usize;
    let total = threads * per_thread;
    let cap = match focus {
        Focus::Overflow => *rng.pick(&[1, 2, 3, 7, 16]) as usize,
        _ => if rng.chance(1, 3) { *rng.pick(&[1, 4, 32]) as usize } else { total + 1 },
    };
    StressPlan {
        cap, kind: rng.below(3) as u8, threads, per_thread,
        stall: (focus == Focus::Overflow || focus == Focus::Shutdown) && rng.chance(1, 2),
        flush_every: if rng.chance(1, 2) { *rng.pick(&[3, 17, 50]) as usize } else { 0 },
        interval_us: *rng.pick(&[1, 100, 5000, 1_000_000]),
        val_every: *rng.pick(&[0, 0, 3, 10]),
        seed: rng.next(),
    }
}

/// impl line of a stress run: (events) (flush records: (wid, pushed-by-requester-before, log position at completion))
pub fn emit_stress(out: &mut Out, p: &StressPlan) {
    let case = p.sx();
    attach(false);
    let log: Log = Arc::new(Mutex::new(vec![]));
    let gate = Arc::new(Gate::default());
    if p.stall {
        gate.close();
    }
    let mut script = Script::default();
    if p.val_every > 0 {
        for t in 1..=p.threads as u64 {
            for n in 0..p.per_thread as u64 {
                if (n + t) % p.val_every == 0 {
                    script.results.insert((t, n), R_VAL);
                }
            }
        }
    }
    let counters = Arc::new(Mutex::new(HashMap::new()));
    let rec = LogRecorder { log: log.clone(), counters: counters.clone(), queue_len: Arc::new(Mutex::new(vec![])) };
    let stream = RecStream { log: log.clone(), script, gate: Some(gate.clone()), flush_calls: 0, before_call: None };
    let b = BackgroundQueueBuilder::new()
        .capacity(p.cap)
        .flush_interval(Duration::from_micros(p.interval_us))
        .metrics_recorder_local::<dyn metrics::Recorder, _>(rec);
    enum HH { T(metrique_writer::sink::BackgroundQueue<Ent>), B(metrique_writer::BoxEntrySink) }
    let (h, join) = if p.kind == 0 { let (q, j) = b.build::<Ent>(stream); (HH::T(q), j) } else { let (q, j) = b.build_boxed(stream); (HH::B(q), j) };
    let h = Arc::new(h);
    let dropped = Arc::new(AtomicU64::new(0));
    let max_append_ns = Arc::new(AtomicU64::new(0));
    // flush records: (thread, entries this thread had appended before the request, log length when seen ready)
    let flushes: Arc<Mutex<Vec<(u64, u64, u64)>>> = Arc::new(Mutex::new(vec![]));
    let t0 = Instant::now();
    // flush requests made while the writer was held and still pending when their thread finished: (thread, before, future)
    let mut leftover: Vec<(u64, u64, metrique_writer::sink::FlushWait)> = vec![];
    std::thread::scope(|sc| {
        let mut producers = vec![];
        for t in 1..=p.threads as u64 {
            let h = h.clone();
            let dropped = dropped.clone();
            let flushes = flushes.clone();
            let log = log.clone();
            let max_append_ns = max_append_ns.clone();
            let kind = p.kind;
            let (n, fe, stall) = (p.per_thread as u64, p.flush_every as u64, p.stall);
            let mut rng = Rng::new(p.seed ^ t);
            producers.push(sc.spawn(move || {
                let mut pending: Vec<(u64, metrique_writer::sink::FlushWait)> = vec![];
                for i in 0..n {
                    let e = Ent { thread: t, seq: i, dropped: Some(dropped.clone()) };
                    let a0 = Instant::now();
                    match &*h {
                        HH::T(q) => q.append(e),
                        HH::B(b) => if kind == 1 { b.append_any(e) } else { EntrySink::<Ent>::append(b, e) },
                    }
                    max_append_ns.fetch_max(a0.elapsed().as_nanos() as u64, Ordering::SeqCst);
                    if fe > 0 && (i + t) % fe == 0 {
                        let f = match &*h { HH::T(q) => EntrySink::<Ent>::flush_async(q), HH::B(b) => AnyEntrySink::flush_async(b) };
                        pending.push((i + 1, f));
                    }
                    if rng.chance(1, 16) {
                        std::thread::yield_now();
                    }
                    pending.retain_mut(|(before, f)| {
                        if poll_once(f) {
                            let pos = log.lock().unwrap().len() as u64;
                            flushes.lock().unwrap().push((t, *before, pos));
                            false
                        } else {
                            true
                        }
                    });
                }
                if !stall {
                    // wait for the outstanding flush requests (bounded): C04's liveness half on real threads
                    let lim = Instant::now() + Duration::from_secs(20);
                    while !pending.is_empty() && Instant::now() < lim {
                        pending.retain_mut(|(before, f)| {
                            if poll_once(f) {
                                let pos = log.lock().unwrap().len() as u64;
                                flushes.lock().unwrap().push((t, *before, pos));
                                false
                            } else {
                                true
                            }
                        });
                        std::thread::yield_now();
                    }
                    for (before, _) in pending {
                        flushes.lock().unwrap().push((t, before, u64::MAX));
                    }
                    vec![]
                } else {
                    pending.into_iter().map(|(before, f)| (t, before, f)).collect::<Vec<_>>()
                }
            }));
        }
        for pr in producers {
            leftover.extend(pr.join().unwrap());
        }
    });
    let produce_time = t0.elapsed();
    gate.open();
    // the requests made during the stall complete now that the writer runs: each must then cover what its thread had
    // appended before it (bounded wait: C04's liveness half)
    if p.seed & 2 == 0 {
        // (every other stalled run goes straight to the shutdown with the requests dropped, as a racing shutdown would)
        leftover.clear();
    } else {
        let lim = Instant::now() + Duration::from_secs(20);
        while !leftover.is_empty() && Instant::now() < lim {
            leftover.retain_mut(|(t, before, f)| {
                if poll_once(f) {
                    let pos = log.lock().unwrap().len() as u64;
                    flushes.lock().unwrap().push((*t, *before, pos));
                    false
                } else {
                    true
                }
            });
            std::thread::yield_now();
        }
        for (t, before, _) in leftover.drain(..) {
            flushes.lock().unwrap().push((t, before, u64::MAX));
        }
    }
    // every other run (by the case's seed) drops the last queue handle and the join handle from a frame that is
    // unwinding from a panic: shutdown must drain, flush and close all the same
    let unwinding = p.seed & 1 == 1;
    crate::common::drop_placed(h, unwinding);
    let j0 = Instant::now();
    crate::common::drop_placed(join, unwinding);
    if unwinding { out.count("stress_handles_dropped_during_unwind"); }
    let join_time = j0.elapsed();
    let events = log.lock().unwrap().clone();
    let mut fl = flushes.lock().unwrap().clone();
    out.add("stress_flush_requests_made", fl.len() as u64);
    if fl.len() > 400 {
        // the predicate is linear in the log per request: check an evenly spaced sample of the requests
        let step = fl.len() as f64 / 400.0;
        fl = (0..400).map(|i| fl[(i as f64 * step) as usize]).collect();
    }
    let imp = Sx::L(vec![
        Sx::L(events.iter().map(|e| e.sx()).collect()),
        Sx::L(fl.iter().map(|f| Sx::L(vec![sx::n(f.0), sx::n(f.1), if f.2 == u64::MAX { sx::z(-1) } else { sx::n(f.2) }])).collect()),
        sx::n(*counters.lock().unwrap().get("metrique_queue_overflows").unwrap_or(&0)),
    ]);
    out.count(&format!("stress_threads_{}", p.threads));
    out.count(if p.cap > p.threads * p.per_thread { "stress_cap_ample" } else { "stress_cap_small" });
    out.count(if p.stall { "stress_writer_stalled" } else { "stress_writer_free" });
    out.add("stress_entries_appended", (p.threads * p.per_thread) as u64);
    out.add("stress_entries_delivered", events.iter().filter(|e| matches!(e, Ev::Next(..))).count() as u64);
    out.add("stress_overflow_events", events.iter().filter(|e| matches!(e, Ev::Over)).count() as u64);
    out.add("stress_flush_requests", fl.len() as u64);
    out.add("stress_in_band_reports", events.iter().filter(|e| matches!(e, Ev::Report(_))).count() as u64);
    // non-blocking: with the writer held inside `next` for the whole production phase, every append returned
    if p.stall && produce_time > Duration::from_secs(10) {
        out.fail(format!("appends took {:?} while the writer was stalled", produce_time), &case);
    }
    if join_time > Duration::from_secs(25) {
        out.fail(format!("shutdown took {:?}", join_time), &case);
    }
    if events.last() != Some(&Ev::DropStream) {
        out.fail("drop(join handle) returned but the stream was not dropped last".into(), &case);
    }
    let total = (p.threads * p.per_thread) as u64;
    // every entry is dropped exactly once (written, displaced or discarded) once queue and stream are gone
    let d = dropped.load(Ordering::SeqCst);
    if d != total {
        out.fail(format!("{} of {} entries were dropped after shutdown (leak or double drop)", d, total), &case);
    }
    out.notes.push(format!("stress: max single append latency {} us", max_append_ns.load(Ordering::SeqCst) / 1000));
    let nontrivial = p.threads >= 2 || p.cap <= p.per_thread;
    out.case(&case, &imp, nontrivial);
}

// ------------------------------------------------------------------------------------------ the global recorder

/// The process-wide metrics.rs recorder for queues built with `metrics_recorder_global`: counters are told apart by
/// their `sink` label; an overflow increment is put into the event log of the queue the label names.
#[derive(Default)]
struct GlobalRec {
    sinks: Mutex<HashMap<String, (Log, Arc<AtomicU64>)>>,
}
struct GlobalCounter {
    overflow: bool,
    target: Option<(Log, Arc<AtomicU64>)>,
}
impl metrics::CounterFn for GlobalCounter {
    fn increment(&self, value: u64) {
        if let (true, Some((log, n))) = (self.overflow, &self.target) {
            n.fetch_add(value, Ordering::SeqCst);
            let mut l = log.lock().unwrap();
            for _ in 0..value {
                l.push(Ev::Over);
            }
        }
    }
    fn absolute(&self, _value: u64) {}
}
impl metrics::Recorder for &'static GlobalRec {
    fn describe_counter(&self, _: metrics::KeyName, _: Option<metrics::Unit>, _: metrics::SharedString) {}
    fn describe_gauge(&self, _: metrics::KeyName, _: Option<metrics::Unit>, _: metrics::SharedString) {}
    fn describe_histogram(&self, _: metrics::KeyName, _: Option<metrics::Unit>, _: metrics::SharedString) {}
    fn register_counter(&self, key: &metrics::Key, _: &metrics::Metadata<'_>) -> metrics::Counter {
        let sink = key.labels().find(|l| l.key() == "sink").map(|l| l.value().to_string()).unwrap_or_default();
        let target = self.sinks.lock().unwrap().get(&sink).cloned();
        metrics::Counter::from_arc(Arc::new(GlobalCounter { overflow: key.name() == "metrique_queue_overflows", target }))
    }
    fn register_gauge(&self, _: &metrics::Key, _: &metrics::Metadata<'_>) -> metrics::Gauge {
        metrics::Gauge::noop()
    }
    fn register_histogram(&self, _: &metrics::Key, _: &metrics::Metadata<'_>) -> metrics::Histogram {
        metrics::Histogram::noop()
    }
}
fn global_rec() -> Option<&'static GlobalRec> {
    static REC: std::sync::OnceLock<Option<&'static GlobalRec>> = std::sync::OnceLock::new();
    *REC.get_or_init(|| {
        let r: &'static GlobalRec = Box::leak(Box::new(GlobalRec::default()));
        metrics::set_global_recorder(r).ok().map(|_| r)
    })
}

/// Two queues with different names, both reporting through the GLOBAL metrics.rs recorder, their writers held; one
/// thread appends to both in turn beyond their capacities.  Each queue is then judged like a stalled single-producer
/// stress run of its own: its overflow increments (found by the `sink` label) must be its own displacements.
pub fn emit_two_queues_global(out: &mut Out, caps: (usize, usize), ns: (usize, usize), run: u64) {
    static SEQ: AtomicU64 = AtomicU64::new(0);
    let Some(rec) = global_rec() else {
        out.count("global_recorder_unavailable");
        return;
    };
    attach(false);
    let mk = |cap: usize, n: usize, which: &str| {
        let name = format!("q{which}-{run}-{}", SEQ.fetch_add(1, Ordering::SeqCst));
        let log: Log = Arc::new(Mutex::new(vec![]));
        let count = Arc::new(AtomicU64::new(0));
        rec.sinks.lock().unwrap().insert(name.clone(), (log.clone(), count.clone()));
        let gate = Arc::new(Gate::default());
        gate.close();
        let stream = RecStream { log: log.clone(), script: Script::default(), gate: Some(gate.clone()), flush_calls: 0, before_call: None };
        let (q, join) = BackgroundQueueBuilder::new()
            .capacity(cap)
            .metric_name(name)
            .flush_interval(Duration::from_millis(5))
            .metrics_recorder_global::<dyn metrics::Recorder>()
            .build::<Ent>(stream);
        let plan = StressPlan { cap, kind: 0, threads: 1, per_thread: n, stall: true, flush_every: 0, interval_us: 5000, val_every: 0, seed: 0 };
        (q, join, log, count, gate, plan)
    };
    let a = mk(caps.0, ns.0, "a");
    let b = mk(caps.1, ns.1, "b");
    let dropped = Arc::new(AtomicU64::new(0));
    // one appender thread, the two queues in turn
    for i in 0..ns.0.max(ns.1) as u64 {
        if (i as usize) < ns.0 {
            a.0.append(Ent { thread: 1, seq: i, dropped: Some(dropped.clone()) });
        }
        if (i as usize) < ns.1 {
            b.0.append(Ent { thread: 1, seq: i, dropped: Some(dropped.clone()) });
        }
    }
    for (q, join, log, count, gate, plan) in [a, b] {
        gate.open();
        drop(q);
        drop(join);
        let events = log.lock().unwrap().clone();
        let imp = Sx::L(vec![Sx::L(events.iter().map(|e| e.sx()).collect()), Sx::L(vec![]), sx::n(count.load(Ordering::SeqCst))]);
        let delivered = events.iter().filter(|e| matches!(e, Ev::Next(..))).count() as u64;
        let overs = events.iter().filter(|e| matches!(e, Ev::Over)).count() as u64;
        if delivered + overs != plan.per_thread as u64 {
            out.fail(format!("two queues on the global recorder: {} appended, {} delivered, but {} overflow increments reported under this queue's name", plan.per_thread, delivered, overs), &plan.sx());
        }
        out.count("two_queues_global_recorder");
        out.case(&plan.sx(), &imp, true);
    }
}

/// Systematic exploration of a small plan: every schedule with at most `bound` preemptions (a preemption =
/// taking the processor away from a thread that could continue), depth first, up to `budget` schedules.
pub fn explore(out: &mut Out, plan: &Plan, bound: usize, budget: usize, rng: &mut Rng) -> usize {
    let mut stack: Vec<(Vec<usize>, usize)> = vec![(vec![], 0)]; // (forced prefix, preemptions used)
    let mut done = 0;
    while let Some((prefix, used)) = stack.pop() {
        if done >= budget {
            out.count("explore_budget_exhausted");
            break;
        }
        let nosub = !subscriber_installed();
        let r = run_scheduled(plan, rng, Some(&prefix), PREFIX_MODE);
        done += 1;
        // branch after the prefix
        for j in (prefix.len()..r.choices.len()).rev() {
            let cur = r.choices[j];
            let prev = if j > 0 { Some(r.choices[j - 1]) } else { None };
            for &alt in &r.runnable_sets[j] {
                if alt == cur {
                    continue;
                }
                // choosing `alt` instead of the default is a preemption iff the previous thread could continue
                let preempt = prev.map(|p| r.runnable_sets[j].contains(&p)).unwrap_or(false);
                // alternatives already covered: the default policy picked `cur`; order alternatives after it
                let cost = used + preempt as usize;
                if cost <= bound {
                    let mut np = r.choices[..j].to_vec();
                    np.push(alt);
                    stack.push((np, cost));
                }
            }
        }
        let case = case_sx(plan, nosub, &r);
        let imp = impl_sx(&r);
        out.count("explore_schedules");
        out.add("explore_labels", r.steps.len() as u64);
        if r.end != "complete" && r.end != "writer parked, nobody left to wake it" {
            out.fail(format!("scheduled run did not complete: {}", r.end), &case);
            if r.end.contains("did not") {
                STUCK_RUNS.fetch_add(1, Ordering::SeqCst);
            }
        }
        if let Some(d) = &r.diverged {
            out.fail(d.clone(), &case);
        }
        out.case(&case, &imp, r.appended >= 2);
        if too_many_stuck() {
            out.notes.push("systematic exploration stopped: threads repeatedly failed to reach their next synchronisation point".into());
            break;
        }
    }
    done
}

/// Small plans explored systematically.
pub fn small_plans(focus: Focus) -> Vec<Plan> {
    let base = |cap: usize, regime: u8, scripts: Vec<Vec<Op>>, joiner: usize| Plan {
        cap, kind: 0, regime, scripts, joiner, results: vec![(1, 0, R_VAL)], report_result: 0, failing_flushes: vec![],
    };
    let mut v = vec![
        // one producer, two entries into a ring of one, then shutdown
        base(1, 0, vec![vec![Op::Append(0), Op::Append(1), Op::DropJoin, Op::DropH]], 1),
        // two producers, one entry each, ring of one
        base(1, 0, vec![vec![Op::Append(0), Op::DropJoin, Op::DropH], vec![Op::Append(0), Op::DropH]], 1),
        // an entry, a flush request, an entry
        base(2, 0, vec![vec![Op::Append(0), Op::Flush, Op::Append(1), Op::DropJoin, Op::DropH]], 1),
    ];
    match focus {
        Focus::Flush => v.push(base(1, 1, vec![vec![Op::Append(0), Op::Flush, Op::DropJoin, Op::DropH], vec![Op::Flush, Op::Append(0), Op::DropH]], 1)),
        Focus::Shutdown => {
            v.push(base(2, 1, vec![vec![Op::Append(0), Op::Forget, Op::DropH], vec![Op::Append(0), Op::DropH]], 1));
            v.push(base(1, 1, vec![vec![Op::Append(0), Op::DropJoin, Op::Append(1), Op::DropH]], 1));
        }
        Focus::Overflow => v.push(base(2, 1, vec![vec![Op::Append(0), Op::Append(1), Op::Append(2), Op::Append(3), Op::DropJoin, Op::DropH]], 1)),
        Focus::Delivery => v.push(base(2, 1, vec![vec![Op::Append(0), Op::Append(1), Op::DropJoin, Op::DropH], vec![Op::Append(0), Op::DropH]], 1)),
    }
    v
}

/// The family's standard run: scheduled cases into suite "-s", unscheduled into "-u".
pub fn run_family(ctx: &Ctx, focus: Focus, rule: &str) {
    run_family_with(ctx, focus, rule, &mut |_| {});
}

/// `between` runs after phase 1 and before the tracing subscriber is installed (replay: before anything else).
pub fn run_family_with(ctx: &Ctx, focus: Focus, rule: &str, between: &mut dyn FnMut(&mut Rng)) {
    let mut s = Out::new(ctx, "-s");
    let mut u = Out::new(ctx, "-u");
    let mut rng = Rng::new(ctx.seed ^ (focus as u64) << 40);
    if let Some(p) = &ctx.replay {
        between(&mut rng);
        for line in std::fs::read_to_string(p).unwrap().lines().filter(|l| l.starts_with('(') && !l.starts_with("(7 ")) {
            if line.starts_with("(0 ") {
                replay_line(&mut s, line, &mut rng);
            } else {
                replay_line(&mut u, line, &mut rng);
            }
        }
        s.finish("replay");
        u.finish("replay");
        return;
    }
    let t0 = Instant::now();
    let (n_sched, mut n_big, n_stress, budget) = if ctx.tier_thorough { (40000, 120, 60, 420.0) } else { (3000, 8, 12, 50.0) };
    if focus == Focus::Flush {
        // the counter protocol only matters when more than 32 entries are queued in front of a request
        n_big *= 8;
    }
    // systematic part: small plans, every schedule with few preemptions
    let (bound, per_plan) = if ctx.tier_thorough { (3, 4000) } else { (2, 250) };
    for plan in small_plans(focus) {
        explore(&mut s, &plan, bound, per_plan, &mut rng);
    }
    // phase 1: no tracing subscriber (in-band reports possible); phase 2: subscriber installed
    for phase in 0..2 {
        if phase == 1 {
            between(&mut rng);
            install_subscriber();
        }
        for i in 0..n_sched / 2 {
            if t0.elapsed().as_secs_f64() > budget * (0.45 + 0.4 * phase as f64) {
                s.notes.push(format!("phase {phase}: time budget reached after {i} scheduled cases"));
                break;
            }
            if too_many_stuck() {
                s.notes.push("scheduled cases stopped: threads repeatedly failed to reach their next synchronisation point".into());
                break;
            }
            let plan = gen_plan(&mut rng, focus, false);
            let bias = *rng.pick(&[1, 2, 4, 4, 12, 30]);
            emit_scheduled(&mut s, &plan, &mut rng, None, bias);
        }
        for _ in 0..n_big / 2 {
            if too_many_stuck() {
                break;
            }
            let plan = if focus == Focus::Flush && rng.chance(1, 2) { gen_flush_big(&mut rng) } else { gen_plan(&mut rng, focus, true) };
            let bias = *rng.pick(&[0, 0, 1, 4]);
            emit_scheduled(&mut s, &plan, &mut rng, None, bias);
        }
        if focus == Focus::Overflow {
            // a tiny ring against a free-running writer, many appends: every append displaces while the writer pops —
            // the window between a producer's ring operations and the writer's pop is hit thousands of times
            for (cap, threads) in [(1usize, 1usize), (1, 3), (2, 2), (3, 1)] {
                let p = StressPlan {
                    cap, kind: rng.below(3) as u8, threads, per_thread: if ctx.tier_thorough { 25_000 } else { 15_000 },
                    stall: false, flush_every: 0, interval_us: *rng.pick(&[1, 100, 5000]), val_every: 0, seed: rng.next(),
                };
                u.count("stress_tiny_ring_racing_writer");
                emit_stress(&mut u, &p);
            }
        }
        if focus == Focus::Flush {
            for _ in 0..(if ctx.tier_thorough { 300 } else { 30 }) {
                if too_many_stuck() {
                    break;
                }
                let (plan, wish) = gen_flush_refill(&mut rng);
                s.count("sched_flush_refill_plans");
                emit_scheduled(&mut s, &plan, &mut rng, Some(&wish), LENIENT_PREFIX_MODE);
            }
        }
        for _ in 0..n_stress / 2 {
            let p = gen_stress(&mut rng, focus, ctx.tier_thorough);
            emit_stress(&mut u, &p);
        }
        // two queues reporting through the process-wide recorder, filled by one thread
        if focus == Focus::Overflow {
            for k in 0..(if ctx.tier_thorough { 12 } else { 4 }) {
                let caps = (*rng.pick(&[1usize, 2, 4, 7]), *rng.pick(&[1usize, 3, 5, 16]));
                let ns = (caps.0 + 3 + rng.below(20) as usize, caps.1 + 2 + rng.below(30) as usize);
                emit_two_queues_global(&mut u, caps, ns, k);
            }
        }
        // a backlog of thousands of entries behind a held writer, then one flush request (the drain passes are long)
        if focus == Focus::Flush {
            let sizes: &[(usize, usize)] = if ctx.tier_thorough { &[(4096, 3000), (8192, 5000), (20_000, 12_000), (4096, 1100)] } else { &[(4096, 3000), (8192, 2100)] };
            for &(cap, backlog) in sizes {
                for kind in 0..2u8 {
                    let p = StressPlan { cap, kind, threads: 1, per_thread: backlog, stall: true, flush_every: backlog, interval_us: if kind == 0 { 1_000_000 } else { 100 }, val_every: 0, seed: (rng.next() & !3) | 2 };
                    u.count("stress_backlog_then_flush");
                    emit_stress(&mut u, &p);
                }
            }
        }
    }
    s.finish(rule);
    u.finish("unscheduled: real producer threads against the real writer thread, gate-stalled or free; non-trivial = at least two producers or more entries per producer than the capacity");
}
