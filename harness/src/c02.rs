//! C02 — EMF output is complete, newline-framed, valid JSON; a validation error writes nothing.
#[path = "emf_common.rs"]
pub mod emf;
use crate::common::{Ctx, Out, Rng};
use crate::sx::{self, Sx};
use emf::*;

/// harness-side cross-check of the property predicate with serde_json (the Coq parser is the primary predicate)
pub fn check_framing(out: &mut Out, case: &Case, case_sx: &Sx, raw: &[(Res, Vec<u8>)]) {
    for (call, (res, bytes)) in case.calls.iter().zip(raw) {
        // serde_json keeps the LAST duplicate member; with validations off an entry may itself write a field
        // called `_aws` after the metadata block, so the structural part is checked on the first member by the
        // Coq predicate only and serde is used for syntax here.
        let shadowed = call.items.iter().any(|i| matches!(i, Item::Value(n, v) if n == "_aws" || matches!(v, VCall::Metric(_, _, d, _) if d.iter().any(|(k, _)| k == "_aws"))));
        match res {
            Res::Ok => {
                if bytes.is_empty() || *bytes.last().unwrap() != b'\n' {
                    out.fail("success reported but output is empty or not newline-terminated".into(), case_sx);
                }
                for line in bytes.split_inclusive(|&b| b == b'\n') {
                    let ok = serde_json::from_slice::<serde_json::Value>(line).map(|v| {
                        v.is_object() && (shadowed || v["_aws"]["Timestamp"].is_u64() && v["_aws"]["CloudWatchMetrics"].as_array().map(|a| !a.is_empty() && a.iter().all(|d| d["Namespace"].is_string() && d["Dimensions"].is_array() && d["Metrics"].is_array())).unwrap_or(false))
                    }).unwrap_or(false);
                    if !ok {
                        out.fail(format!("emitted line is not a valid EMF JSON record: {}", String::from_utf8_lossy(line)), case_sx);
                    }
                }
            }
            Res::Validation(_) => {
                if !bytes.is_empty() {
                    out.fail("validation error reported but bytes were written".into(), case_sx);
                }
            }
            Res::Io(_) => {}
            Res::Panicked => out.fail("the formatter panicked".into(), case_sx),
        }
    }
}

pub fn classify(out: &mut Out, case: &Case, raw: &[(Res, Vec<u8>)]) -> bool {
    let mut nontrivial = false;
    for (call, (res, bytes)) in case.calls.iter().zip(raw) {
        out.count(match res { Res::Ok => "result_ok", Res::Validation(_) => "result_validation", Res::Io(_) => "result_io", Res::Panicked => "result_panic" });
        out.add("lines", bytes.iter().filter(|&&b| b == b'\n').count() as u64);
        if call.rate_exp.is_some() { out.count("sampled"); }
        for it in &call.items {
            match it {
                Item::Value(_, VCall::Metric(os, _, d, f)) => {
                    out.count(&format!("metric_obs_{}", std::cmp::min(os.len(), 3)));
                    if !d.is_empty() { out.count("metric_with_dims"); }
                    if *f != Flag::None { out.count("metric_with_flag"); }
                    if os.len() >= 2 { nontrivial = true; }
                    for o in os { if let Obs::F(b) = o { if f64::from_bits(*b).is_nan() { out.count("obs_nan"); } } }
                }
                Item::Value(_, VCall::Str(s)) => { out.count("string"); if s.bytes().any(|b| b < 0x20 || b == b'"' || b == b'\\' || b >= 0x80) { nontrivial = true; out.count("string_escaped_or_nonascii"); } }
                Item::Value(_, VCall::Error(_)) => out.count("value_error"),
                Item::Config(_) => out.count("config"),
                _ => {}
            }
        }
    }
    nontrivial
}

pub fn emit(out: &mut Out, case: &Case) -> Vec<(Res, Vec<u8>)> {
    let (case_sx, imp_sx, raw) = exec_case(case, out);
    check_framing(out, case, &case_sx, &raw);
    let nt = classify(out, case, &raw);
    out.case(&case_sx, &imp_sx, nt);
    raw
}

pub fn replay(ctx: &Ctx, out: &mut Out) -> bool {
    if let Some(p) = &ctx.replay {
        for line in std::fs::read_to_string(p).unwrap().lines().filter(|l| l.starts_with('(')) {
            emit(out, &dec_case(&sx::parse(line)));
        }
        true
    } else { false }
}

pub fn run(ctx: &Ctx) {
    crate::common::quiet_panics();
    let mut out = Out::new(ctx, "");
    if replay(ctx, &mut out) { out.finish("replay"); return; }
    let mut rng = Rng::new(ctx.seed);
    // exhaustive placement patterns of observation classes
    let classes = [Obs::U(7), Obs::F(1.5f64.to_bits()), Obs::F(f64::NAN.to_bits()), Obs::F(f64::INFINITY.to_bits()), Obs::R(2.0f64.to_bits(), 0), Obs::R(9.0f64.to_bits(), 4)];
    let maxlen = if ctx.tier_thorough { 5 } else { 4 };
    let cfg0 = Config { ctor: Ctor::AllValidations, namespaces: vec!["Ns".into()], default_dims: vec![vec![]], directives: vec![], log_group: None, allow_ignored: false };
    for len in 0..=maxlen {
        let total = classes.len().pow(len as u32);
        for code in 0..total {
            let mut c = code; let mut os = vec![];
            for _ in 0..len { os.push(classes[c % classes.len()].clone()); c /= classes.len(); }
            for rate in [None, Some(1)] {
                let items = vec![Item::Timestamp(1_000_000), Item::Value("m".into(), VCall::Metric(os.clone(), UnitS::None, vec![], Flag::None)), Item::Value("after".into(), VCall::Metric(vec![Obs::U(1)], UnitS::None, vec![], Flag::None))];
                out.count("exhaustive_placement");
                emit(&mut out, &Case { cfg: cfg0.clone(), calls: vec![Call { rate_exp: rate, items, script: vec![] }], sorted: true });
            }
        }
    }
    let n = if ctx.tier_thorough { 60000 } else { 5000 };
    for _ in 0..n {
        let cfg = gen_config(&mut rng);
        let items = gen_items(&mut rng, &cfg, &GenOpts { defects: 1, allow_scripts: false, allow_split: true });
        let call = Call { rate_exp: gen_rate(&mut rng), items, script: vec![] };
        emit(&mut out, &Case { cfg, calls: vec![call], sorted: true });
    }
    // the property holds for every formatter STATE: sequences of calls on one formatter (accepted, rejected, split
    // entries whose global record is omitted, sampled, I/O-failed), every successful call checked
    let nseq = if ctx.tier_thorough { 5000 } else { 500 };
    for _ in 0..nseq {
        let cfg = gen_config(&mut rng);
        let len = rng.range(2, 5);
        let mut calls: Vec<Call> = (0..len).map(|_| crate::c14::catalogue(&mut rng, &cfg, false)).collect();
        if rng.chance(1, 2) {
            // a split entry all of whose metrics carry per-metric dimensions: its global record is omitted
            let mut items = vec![Item::Timestamp(4_000_000), Item::Config(CItem::Split)];
            for d in cfg.default_dims.concat() { if !items.iter().any(|i| matches!(i, Item::Value(n, _) if *n == d)) { items.push(Item::Value(d, VCall::Str("s".into()))); } }
            items.push(Item::Value("OnlySplit".into(), VCall::Metric(vec![Obs::U(1)], UnitS::None, vec![("dk".into(), "dv".into())], Flag::None)));
            let at = rng.below(calls.len() as u64) as usize;
            calls.insert(at, Call { rate_exp: None, items, script: vec![] });
        }
        out.count("call_sequence");
        emit(&mut out, &Case { cfg, calls, sorted: true });
    }
    out.finish("EMF: (config, multiplicity, entry) from a structured generator (names/strings biased to quotes, backslashes, controls, multi-byte UTF-8; observation lists with NaN/inf/zero-occurrence placements; units; per-metric dimensions; flags; entry configs; 1-3 namespaces and dimension sets; directives; log group) plus every placement pattern of 6 observation classes up to the tier's length x {unsampled, sampled}. Non-trivial = an entry with a metric of >= 2 observations or a string needing escapes / non-ASCII; distinct by hash of the case");
}
