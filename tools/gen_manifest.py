#!/usr/bin/env python3
"""Regenerates MANIFEST.json from checklib/props.py (claimed checks) and properties.jsonl (everything else
goes to not_applicable with its recorded reason)."""
import json, os, subprocess, sys
V = os.path.dirname(os.path.dirname(os.path.abspath(__file__)))
sys.path.insert(0, V)
from checklib import props as P

ids = [json.loads(l)["id"] for l in open(os.path.join(V, "properties.jsonl"))]
hooks_commits = []
try:
    out = subprocess.run(["git", "-C", "/repo", "log", "--format=%H %s"], capture_output=True, text=True).stdout
    hooks_commits = [l.split()[0] for l in out.splitlines() if " verif-hook:" in l or l.split(" ", 1)[1].startswith("verif-hook")]
except Exception:
    pass
checks = []
for pid in ids:
    if pid not in P.PROPS:
        continue
    c = P.PROPS[pid]
    checks.append({
        "property_id": pid,
        "quick_cmd": f"./check {pid} --tier quick",
        "thorough_cmd": f"./check {pid} --tier thorough",
        "evidence_file": f"/verif/evidence/{pid}.json",
        "replay_cmd_template": f"./check {pid} --replay {{path}}",
        "engine": "coq-model+harness",
        "level_claimed": {
            "category": "proof",
            "text": c.get("level_text", c.get("explanation", "")),
            "design_ref": c.get("design_ref", f"DESIGN.md section 4, {pid}"),
        },
        "level_note": c.get("level_note", "Theorems are about a hand-written executable Gallina model; the tie to the code is the executed "
                            "correspondence (generator-bounded). Trusted: Coq kernel, extraction (ExtrOcamlBasic), OCaml driver, Rust harness. "
                            + " ".join(c.get("assumptions", []))),
        "technique": c.get("technique", "Coq theorems over an executable model + extracted-model/implementation differential correspondence"),
    })
na = [{"property_id": pid, "reason": P.NOT_APPLICABLE.get(pid, "no check registered yet in this state of the framework (model under construction, see DESIGN.md section 4); nothing is claimed for it")}
      for pid in ids if pid not in P.PROPS]
m = {
    "version": 1,
    "setup_cmd": "./check --setup",
    "hooks": {
        "guard": "metrique_verif",
        "enable": "RUSTFLAGS=--cfg metrique_verif (set by ./check when it builds the harness against /repo)",
        "baseline_off_cmd": "cd /repo && cargo nextest run --workspace --no-fail-fast --tool-config-file pb:/w/lib/nextest.toml --profile pb --test-threads 8 --offline",
        "source_commits": hooks_commits,
        "add_only": True,
    },
    "engines": [
        {"name": "coq-model", "path": "coq/theories", "serves_properties": [c["property_id"] for c in checks], "kind_free_text": "Coq 8.16 models, specifications, proofs; Props/Cnn.v pins the statements"},
        {"name": "extracted-driver", "path": "ocaml", "serves_properties": [c["property_id"] for c in checks], "kind_free_text": "extraction of the models + generic s-expression driver"},
        {"name": "rust-harness", "path": "harness", "serves_properties": [c["property_id"] for c in checks], "kind_free_text": "runs the implementation built from /repo on generated cases"},
    ],
    "checks": checks,
    "not_applicable": na,
    "notes": "Technique family: machine-checked proof in Coq with executed correspondence. See DESIGN.md.",
}
json.dump(m, open(os.path.join(V, "MANIFEST.json"), "w"), indent=1)
print(f"{len(checks)} checks, {len(na)} not_applicable")
