#!/bin/bash
# usage: [DEMO_FLAGS=--release] tools/seed_verify.sh <seed dir> <PID> <demo file> <dest dir in tree> <crate> <test name>
# Confirms a seeded change independently in a fresh worktree of /repo HEAD:
#  (1) demo passes on unchanged code, (2) patch applies and the demo fails, (3) the crate's own tests pass with the patch,
#  (4) ./check PID raises a VIOLATION on the patched tree.  The worktree is removed afterwards.
set -u
SD=$1; PID=$2; DEMO=$3; DEST=$4; CRATE=$5; TEST=$6
WT=/tmp/st/$(basename $SD)
git -C /repo worktree remove --force $WT 2>/dev/null; rm -rf $WT; git -C /repo worktree prune
git -C /repo worktree add -q --detach $WT HEAD || exit 9
export CARGO_TARGET_DIR=$WT/target CARGO_NET_OFFLINE=true
mkdir -p $WT/$DEST; cp $SD/out/demo/$DEMO $WT/$DEST/
echo "== [$PID] demo on unchanged code"; (cd $WT && timeout 2400 cargo test --offline ${DEMO_FLAGS:-} -p $CRATE --test $TEST 2>&1 | grep -E "^test result|FAILED|error(\[|:)" | head -5)
echo "== apply patch"; git -C $WT apply $SD/out/patch.diff && echo applied
echo "== demo on patched code"; (cd $WT && timeout 2400 cargo test --offline ${DEMO_FLAGS:-} -p $CRATE --test $TEST 2>&1 | grep -E "^test result|\.\.\. FAILED" | head -6)
rm -f $WT/$DEST/$DEMO
echo "== existing tests of $CRATE with the patch"; (cd $WT && timeout 3000 cargo test --offline -p $CRATE --lib --tests 2>&1 | grep -E "^test result|FAILED" | awk '{p+=$4; f+=$6} END {print "passed="p" failed="f}')
unset CARGO_TARGET_DIR
echo "== check $PID on patched tree"; (cd /verif && VERIF_REPO=$WT timeout 3000 ./check $PID 2>&1 | grep -E "^\[check\] C|VIOLATION|KNOWN" | cut -c1-300 | head -6)
TAG=$(python3 -c "import hashlib,sys; print('alt-'+hashlib.sha1(sys.argv[1].encode()).hexdigest()[:10])" $WT)
git -C /repo worktree remove --force $WT; rm -rf /verif/.cache/hb/$TAG
