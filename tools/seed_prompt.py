#!/usr/bin/env python3
"""usage: seed_prompt.py <SID e.g. C01-a> <focus text>
Creates a scratch worktree /tmp/seed/<SID>/repo of /repo HEAD and writes /tmp/seed/<SID>/prompt.md: the brief for a
fresh sub-agent that sees only the property's text and that worktree (nothing from /verif)."""
import json, os, subprocess, sys
sid, focus = sys.argv[1], sys.argv[2]
pid = sid.split('-')[0]
prop = [json.loads(l) for l in open('/verif/properties.jsonl') if json.loads(l)['id'] == pid][0]
base = f'/tmp/seed/{sid}'
os.makedirs(base + '/out/demo', exist_ok=True)
wt = base + '/repo'
if not os.path.exists(wt):
    subprocess.check_call(['git', '-C', '/repo', 'worktree', 'add', '-q', '--detach', wt, 'HEAD'])
import glob
taken = []
for m in sorted(glob.glob(f'/verif/seeded/{pid}-*/meta.json')):
    d = json.load(open(m))
    taken.append('  - ' + (d.get('summary') or '')[:420].replace('\n', ' '))
if taken:
    focus += ('\n\nIdeas ALREADY TAKEN by other people for this property (do not repeat them or close variants; find a different '
              'part of the mechanism or a different kind of slip):\n' + '\n'.join(taken))
a = prop['anchors']
mech = '; '.join(f"{m['name']} ({m['where']})" for m in a.get('mechanism', []))
tmpl = open('/verif/tools/seed_prompt.tmpl').read()
txt = tmpl.replace('@SID@', sid).replace('@PID@', pid).replace('@TITLE@', prop['title']).replace('@STATEMENT@', prop['statement']) \
    .replace('@QUANT@', prop['quantifier']['text']).replace('@FILES@', ', '.join(a.get('files', []))).replace('@MECH@', mech).replace('@FOCUS@', focus)
open(base + '/prompt.md', 'w').write(txt)
print(base + '/prompt.md')
