#!/usr/bin/env python3
"""Regenerates the seeded-changes table in DESIGN.md from seeded/*/meta.json."""
import json, os, re
V = os.path.dirname(os.path.dirname(os.path.abspath(__file__)))
rows = []
for d in sorted(os.listdir(os.path.join(V, 'seeded'))):
    mp = os.path.join(V, 'seeded', d, 'meta.json')
    if not os.path.exists(mp):
        continue
    m = json.load(open(mp))
    def one(x):
        x = x if isinstance(x, str) else json.dumps(x)
        return re.sub(r'\s+', ' ', x).replace('|', '/')[:260]
    rows.append(f"| {d} | {m['property']} | {one(m.get('summary') or '')} | {one(m.get('needs') or '')} | {m['detected']} — {one(m.get('note') or '')} |")
table = "| Seed | Property | Change | Needs | Caught? |\n|------|----------|--------|-------|---------|\n" + "\n".join(rows)
p = os.path.join(V, 'DESIGN.md')
s = open(p).read()
start = s.index('<!-- SEEDED_TABLE_BEGIN -->') if '<!-- SEEDED_TABLE_BEGIN -->' in s else None
if start is None:
    s = s.replace('SEEDED_TABLE_PLACEHOLDER', '<!-- SEEDED_TABLE_BEGIN -->\n' + table + '\n<!-- SEEDED_TABLE_END -->')
else:
    end = s.index('<!-- SEEDED_TABLE_END -->')
    s = s[:start] + '<!-- SEEDED_TABLE_BEGIN -->\n' + table + '\n' + s[end:]
open(p, 'w').write(s)
print(len(rows), "rows")
