#!/bin/bash
# Runs every registered check (quick tier by default) on /repo and prints one summary line each.
cd /verif
TIER=${1:-quick}
for p in $(python3 -c "
import sys; sys.path.insert(0,'/verif')
from checklib import props
print(' '.join(sorted(props.PROPS)))"); do
  timeout 3000 ./check $p --tier $TIER 2>&1 | grep -E "^\[check\] C|VIOLATION|KNOWN" | cut -c1-160
done
