#!/usr/bin/env python3
"""Pretty-print a replay file: hex byte strings decoded."""
import json,re,sys
def dec(s):
    return re.sub(r'"([0-9a-f]*)"', lambda m: json.dumps(bytes.fromhex(m.group(1)).decode('utf-8','replace')), s)
d=json.load(open(sys.argv[1]))
for k in ('kind','what','case','impl','model','expected'):
    if k in d: print(k.upper()+':', dec(d[k]) if k in('case','impl','model','expected') else d[k]); print()
