#!/usr/bin/env python3
"""C19 translator: metrique-writer-core/src/unit.rs  ->  coq/theories/C19/UnitsGen.v

usage: gen_units.py <unit.rs> <out.v>

Re-extracts, on every run of ./check, the *data* the unit conversions are computed from:

  * `pub enum Unit { .. }`                      -> Inductive unit_
  * `NegativeScale::reduction_factor` arms       -> nscale, reduction_factor
  * `PositiveScale::expansion_factor` arms       -> pscale, expansion_factor
  * `Unit::name` arms (and `positive_scale!`)    -> unit_name
  * `unit_tag!(..)`, `time_unit_tag!{..}` and `bit_unit_tag!{..}` rows
                                                 -> Inductive tag, tag_ident, tag_alias, tag_unit, tag_family
  * the constant expressions inside the macros   -> FROM_SECONDS / FROM_BITS formula and which side of
    (`const FROM_..`, `const RATIO: f64 = ..`)      the RATIO quotient is the source (`Self`) unit
  * `impl<U: UnitTag> Convert<U> for None`       -> none_ratio

It fails closed: every line of every translated block has to be consumed by exactly one rule; anything it
does not understand makes it exit non-zero *and* replace the output by a file that does not compile, so the
theorems over the tables cannot silently keep referring to stale data.
"""
import re
import sys


class Unparsed(Exception):
    pass


def strip_comments(src):
    # line comments only (unit.rs has no block comments); doc comments go too
    out = []
    for ln in src.splitlines():
        i = ln.find("//")
        # no string literal in the translated blocks contains "//"
        out.append(ln if i < 0 else ln[:i])
    return "\n".join(out)


def block_after(src, header_re, what):
    """Text between the braces that follow the (unique) match of header_re."""
    ms = list(re.finditer(header_re, src))
    if len(ms) != 1:
        raise Unparsed(f"{what}: expected exactly one match of /{header_re}/, found {len(ms)}")
    i = src.index("{", ms[0].end() - 1)
    depth, j = 0, i
    while j < len(src):
        if src[j] == "{":
            depth += 1
        elif src[j] == "}":
            depth -= 1
            if depth == 0:
                return src[i + 1:j]
        j += 1
    raise Unparsed(f"{what}: unbalanced braces")


def rows(text):
    return [r.strip() for r in text.splitlines() if r.strip()]


def num(lit):
    if not re.fullmatch(r"[0-9][0-9_]*", lit):
        raise Unparsed(f"not a decimal integer literal: {lit!r}")
    return int(lit.replace("_", ""))


def coq_str(s):
    if any(ord(c) < 32 or ord(c) > 126 for c in s):
        raise Unparsed(f"non-printable character in string literal {s!r}")
    return '"' + s.replace('"', '""') + '"'


def parse(src_raw):
    src = strip_comments(src_raw)
    T = {}

    # ---- enum Unit --------------------------------------------------------------------------------
    variants = []
    for r in rows(block_after(src, r"pub enum Unit\s*\{", "enum Unit")):
        if r.startswith("#["):
            if r != "#[default]":
                raise Unparsed(f"enum Unit: attribute {r!r}")
            continue
        m = re.fullmatch(r"(\w+)(?:\((NegativeScale|PositiveScale|&'static str)\))?,", r)
        if not m:
            raise Unparsed(f"enum Unit: row {r!r}")
        variants.append((m.group(1), m.group(2)))
    T["unit_variants"] = variants

    # ---- scale enums and their factors --------------------------------------------------------------
    def scale_enum(name):
        vs = []
        for r in rows(block_after(src, rf"pub enum {name}\s*\{{", f"enum {name}")):
            if r.startswith("#["):
                if r != "#[default]":
                    raise Unparsed(f"enum {name}: attribute {r!r}")
                continue
            m = re.fullmatch(r"(\w+),", r)
            if not m:
                raise Unparsed(f"enum {name}: row {r!r}")
            vs.append(m.group(1))
        return vs

    def factor_fn(fn, enum):
        body = block_after(src, rf"pub const fn {fn}\(self\) -> u64\s*\{{", fn)
        rs = rows(body)
        if rs[0] != "match self {" or rs[-1] != "}":
            raise Unparsed(f"{fn}: body is not a single match")
        arms = {}
        for r in rs[1:-1]:
            m = re.fullmatch(r"Self::(\w+) => ([0-9_]+),", r)
            if not m:
                raise Unparsed(f"{fn}: arm {r!r}")
            if m.group(1) in arms:
                raise Unparsed(f"{fn}: duplicate arm {m.group(1)}")
            arms[m.group(1)] = num(m.group(2))
        if sorted(arms) != sorted(enum):
            raise Unparsed(f"{fn}: arms {sorted(arms)} do not cover enum {sorted(enum)}")
        return arms

    T["nscale"] = scale_enum("NegativeScale")
    T["pscale"] = scale_enum("PositiveScale")
    T["reduction"] = factor_fn("reduction_factor", T["nscale"])
    T["expansion"] = factor_fn("expansion_factor", T["pscale"])

    # ---- Unit::name -------------------------------------------------------------------------------
    body = block_after(src, r"pub const fn name\(self\) -> &'static str\s*\{", "Unit::name")
    mac = block_after(body, r"macro_rules! positive_scale\s*\{", "positive_scale!")
    mrs = rows(mac)
    if len(mrs) < 4 or mrs[0] != "($scale:expr, $base:literal, $scaled:literal) => {" or mrs[1] != "match $scale {" \
            or mrs[-2:] != ["}", "};"]:
        raise Unparsed("positive_scale!: unexpected shape")
    ps_arms = {}
    for r in mrs[2:-2]:
        m = re.fullmatch(r"PositiveScale::(\w+) => \$base,", r)
        if m:
            ps_arms[m.group(1)] = ("base", "")
            continue
        m = re.fullmatch(r'PositiveScale::(\w+) => concat!\("([^"]*)", \$scaled\),', r)
        if m:
            ps_arms[m.group(1)] = ("scaled", m.group(2))
            continue
        raise Unparsed(f"positive_scale!: arm {r!r}")
    if sorted(ps_arms) != sorted(T["pscale"]):
        raise Unparsed("positive_scale!: arms do not cover PositiveScale")
    # the match itself: the text after the macro definition
    after = body[body.index(mac) + len(mac):]
    mt = block_after(after, r"match self\s*\{", "Unit::name match")
    names = {}  # variant -> str | {scale: str} | None (Custom: passes the string through)
    rs = rows(mt)
    i = 0
    while i < len(rs):
        r = rs[i]
        m = re.fullmatch(r'Self::(\w+) => "([^"]*)",', r)
        if m:
            names[m.group(1)] = m.group(2)
            i += 1
            continue
        m = re.fullmatch(r'Self::(\w+)\(scale\) => positive_scale!\(scale, "([^"]*)", "([^"]*)"\),', r)
        if m:
            names[m.group(1)] = {s: (m.group(2) if k == "base" else pre + m.group(3)) for s, (k, pre) in ps_arms.items()}
            i += 1
            continue
        m = re.fullmatch(r"Self::(\w+)\(scale\) => match scale \{", r)
        if m:
            d = {}
            i += 1
            while rs[i] != "},":
                a = re.fullmatch(r'(NegativeScale|PositiveScale)::(\w+) => "([^"]*)",', rs[i])
                if not a:
                    raise Unparsed(f"Unit::name: inner arm {rs[i]!r}")
                d[a.group(2)] = a.group(3)
                i += 1
            names[m.group(1)] = d
            i += 1
            continue
        m = re.fullmatch(r"Self::(\w+)\((\w+)\) => (\w+),", r)
        if m and m.group(2) == m.group(3):
            names[m.group(1)] = None
            i += 1
            continue
        raise Unparsed(f"Unit::name: arm {r!r}")
    for v, payload in variants:
        if v not in names:
            raise Unparsed(f"Unit::name: no arm for {v}")
        if payload in ("NegativeScale", "PositiveScale"):
            want = T["nscale"] if payload == "NegativeScale" else T["pscale"]
            if not isinstance(names[v], dict) or sorted(names[v]) != sorted(want):
                raise Unparsed(f"Unit::name: arms of {v} do not cover {payload}")
        elif payload is None and not isinstance(names[v], str):
            raise Unparsed(f"Unit::name: arm of {v} is not a literal")
        elif payload == "&'static str" and names[v] is not None:
            raise Unparsed(f"Unit::name: arm of {v} should pass the custom string through")
    if len(names) != len(variants):
        raise Unparsed("Unit::name: arms for unknown variants")
    T["names"] = names

    # ---- tags ---------------------------------------------------------------------------------------
    payload_of = dict(variants)
    tags = []  # dict(ident, alias, unit=(variant, scale|None), family=("none"|"plain"|"time"|"bit", ...))
    plain = re.findall(r"^unit_tag!\((\w+), (\w+), Unit::(\w+)\);$", src, re.M)
    if len(plain) != len(re.findall(r"^unit_tag!", src, re.M)):
        raise Unparsed("a top-level unit_tag! invocation was not understood")
    for ident, alias, variant in plain:
        if payload_of.get(variant, "x") is not None:
            raise Unparsed(f"unit_tag!({ident}): Unit::{variant} is not a payload-free variant")
        tags.append(dict(ident=ident, alias=alias, unit=(variant, None), family=("plain",)))

    # impl<U: UnitTag> Convert<U> for <ident> { const RATIO: f64 = <lit>; }
    blanket = re.findall(r"^impl<U: UnitTag> Convert<U> for (\w+) \{\n\s*const RATIO: f64 = ([0-9_]+)\.0;\n\}$", src, re.M)
    if len(blanket) != len(re.findall(r"^impl<U: UnitTag> Convert<U> for", src, re.M)):
        raise Unparsed("a blanket `impl<U: UnitTag> Convert<U> for ..` was not understood")
    for ident, lit in blanket:
        hit = [t for t in tags if t["ident"] == ident]
        if len(hit) != 1:
            raise Unparsed(f"blanket Convert impl for unknown tag {ident}")
        hit[0]["family"] = ("any", num(lit))
    # every other Convert impl must be one of the two inside the macros (checked below)
    n_conv = len(re.findall(r"\bConvert<U> for\b", src))
    if n_conv != len(blanket) + 2:
        raise Unparsed(f"{n_conv} `Convert<U> for` impls, expected {len(blanket)} blanket + 2 macro-generated")

    # time_unit_tag! definition: the formulas
    tdef = block_after(src, r"macro_rules! time_unit_tag\s*\{", "macro time_unit_tag")
    trs = rows(tdef)
    want = [
        "($($struct:ident, $conversion:ident, $scale:ident;)*) => {",
        "$(",
        "unit_tag!($struct, $conversion, Unit::Second(NegativeScale::$scale));",
        "impl TimeTag for $struct {",
        "const FROM_SECONDS: u64 = NegativeScale::$scale.reduction_factor();",
        "}",
        "impl<U: TimeTag> Convert<U> for $struct {",
        None,
        "}",
        ")*",
        "};",
    ]
    if len(trs) != len(want) or any(w is not None and w != r for w, r in zip(want, trs)):
        raise Unparsed("macro time_unit_tag: body differs from the translated shape")
    m = re.fullmatch(r"const RATIO: f64 = \((U|Self)::FROM_SECONDS as f64\)/\((U|Self)::FROM_SECONDS as f64\);", trs[7])
    if not m or m.group(1) == m.group(2):
        raise Unparsed(f"macro time_unit_tag: RATIO expression {trs[7]!r}")
    T["time_num_is_self"] = m.group(1) == "Self"

    bdef = block_after(src, r"macro_rules! bit_unit_tag\s*\{", "macro bit_unit_tag")
    brs = rows(bdef)
    want = [
        "($($struct:ident, $conversion:ident, $base:ident, $bits:expr, $scale:ident;)*) => {",
        "$(",
        "unit_tag!($struct, $conversion, Unit::$base(PositiveScale::$scale));",
        "impl BitTag for $struct {",
        "const FROM_BITS: u64 = $bits*PositiveScale::$scale.expansion_factor();",
        "}",
        "impl<U: BitTag> Convert<U> for $struct {",
        None,
        "}",
        ")*",
        "};",
    ]
    if len(brs) != len(want) or any(w is not None and w != r for w, r in zip(want, brs)):
        raise Unparsed("macro bit_unit_tag: body differs from the translated shape")
    m = re.fullmatch(r"const RATIO: f64 = \((U|Self)::FROM_BITS as f64\)/\((U|Self)::FROM_BITS as f64\);", brs[7])
    if not m or m.group(1) == m.group(2):
        raise Unparsed(f"macro bit_unit_tag: RATIO expression {brs[7]!r}")
    T["bit_num_is_self"] = m.group(1) == "Self"

    # invocations
    ms = list(re.finditer(r"^time_unit_tag! \{$", src, re.M))
    if len(ms) != 1:
        raise Unparsed("expected exactly one time_unit_tag! invocation")
    for r in rows(block_after(src[ms[0].start():], r"time_unit_tag! \{", "time_unit_tag! rows")):
        m = re.fullmatch(r"(\w+), (\w+), (\w+);", r)
        if not m or m.group(3) not in T["nscale"]:
            raise Unparsed(f"time_unit_tag! row {r!r}")
        tags.append(dict(ident=m.group(1), alias=m.group(2), unit=("Second", m.group(3)), family=("time", m.group(3))))
    ms = list(re.finditer(r"^bit_unit_tag! \{$", src, re.M))
    if len(ms) != 1:
        raise Unparsed("expected exactly one bit_unit_tag! invocation")
    for r in rows(block_after(src[ms[0].start():], r"bit_unit_tag! \{", "bit_unit_tag! rows")):
        m = re.fullmatch(r"(\w+), (\w+), (\w+), ([0-9_]+), (\w+);", r)
        if not m or m.group(5) not in T["pscale"] or payload_of.get(m.group(3)) != "PositiveScale":
            raise Unparsed(f"bit_unit_tag! row {r!r}")
        tags.append(dict(ident=m.group(1), alias=m.group(2), unit=(m.group(3), m.group(5)),
                         family=("bit", num(m.group(4)), m.group(5))))
    if payload_of.get("Second") != "NegativeScale":
        raise Unparsed("Unit::Second no longer carries a NegativeScale")
    idents = [t["ident"] for t in tags]
    if len(set(idents)) != len(idents):
        raise Unparsed("duplicate tag identifiers")
    T["tags"] = tags

    # ---- Convert::convert body: translated as a checked shape (the model mirrors it by hand) -------------
    conv = block_after(src, r"fn convert\(observation: Observation\) -> Observation\s*\{", "Convert::convert")
    want = [
        "if Self::RATIO == 1.0 {",
        "return observation;",
        "}",
        "match observation {",
        "Observation::Unsigned(u) => Observation::Floating((u as f64) * Self::RATIO),",
        "Observation::Floating(f) => Observation::Floating(f * Self::RATIO),",
        "Observation::Repeated { total, occurrences } => Observation::Repeated {",
        "total: total * Self::RATIO,",
        "occurrences,",
        "},",
        "}",
    ]
    T["convert_shape_ok"] = rows(conv) == want
    return T


def emit(T, srcname):
    o = []
    w = o.append
    w(f"(* GENERATED by tools/gen_units.py from {srcname} on every ./check run -- do not edit. *)")
    w("From Coq Require Import List NArith.")
    w("From MV Require Import SFloat.Str.")
    w("Import ListNotations.")
    w("Local Open Scope str_scope.")
    w("")
    w("Inductive nscale := " + " | ".join("NS_" + s for s in T["nscale"]) + ".")
    w("Inductive pscale := " + " | ".join("PS_" + s for s in T["pscale"]) + ".")
    w("Definition all_nscale : list nscale := [" + "; ".join("NS_" + s for s in T["nscale"]) + "].")
    w("Definition all_pscale : list pscale := [" + "; ".join("PS_" + s for s in T["pscale"]) + "].")
    w("Definition reduction_factor (s : nscale) : N :=\n  match s with " +
      " ".join(f"| NS_{s} => {T['reduction'][s]}%N" for s in T["nscale"]) + " end.")
    w("Definition expansion_factor (s : pscale) : N :=\n  match s with " +
      " ".join(f"| PS_{s} => {T['expansion'][s]}%N" for s in T["pscale"]) + " end.")
    w("")
    w("(* pub enum Unit *)")
    cs = []
    for v, p in T["unit_variants"]:
        if p is None:
            cs.append(f"U_{v}")
        elif p == "NegativeScale":
            cs.append(f"U_{v} (s : nscale)")
        elif p == "PositiveScale":
            cs.append(f"U_{v} (s : pscale)")
        else:
            cs.append(f"U_{v} (name : str)")
    w("Inductive unit_ := " + " | ".join(cs) + ".")
    w("")
    w("(* Unit::name *)")
    w("Definition unit_name (u : unit_) : str :=\n  match u with")
    for v, p in T["unit_variants"]:
        nm = T["names"][v]
        if p is None:
            w(f"  | U_{v} => {coq_str(nm)}")
        elif p == "&'static str":
            w(f"  | U_{v} name => name")
        else:
            pre = "NS_" if p == "NegativeScale" else "PS_"
            order = T["nscale"] if p == "NegativeScale" else T["pscale"]
            w(f"  | U_{v} s => match s with " + " ".join(f"| {pre}{s} => {coq_str(nm[s])}" for s in order) + " end")
    w("  end.")
    w("")
    tags = T["tags"]
    w("(* unit_tag! / time_unit_tag! / bit_unit_tag! rows *)")
    w("Inductive tag := " + " | ".join("T_" + t["ident"] for t in tags) + ".")
    w("Definition all_tags : list tag := [" + "; ".join("T_" + t["ident"] for t in tags) + "].")
    w("Definition tag_ident (t : tag) : str :=\n  match t with " +
      " ".join(f"| T_{t['ident']} => {coq_str(t['ident'])}" for t in tags) + " end.")
    w("Definition tag_alias (t : tag) : str :=\n  match t with " +
      " ".join(f"| T_{t['ident']} => {coq_str(t['alias'])}" for t in tags) + " end.")

    def unit_term(u):
        v, s = u
        if s is None:
            return f"U_{v}"
        pre = "NS_" if v == "Second" else "PS_"
        return f"U_{v} {pre}{s}"
    w("Definition tag_unit (t : tag) : unit_ :=\n  match t with " +
      " ".join(f"| T_{t['ident']} => {unit_term(t['unit'])}" for t in tags) + " end.")
    w("")
    w("(* Which Convert impls exist and what their constants are computed from:")
    w("   F_Any r      : impl<U: UnitTag> Convert<U> for it, RATIO = r (an integer literal)")
    w("   F_Plain      : no Convert impl at all")
    w("   F_Time fs    : TimeTag, FROM_SECONDS = fs;  Convert<U: TimeTag>")
    w("   F_Bit fb     : BitTag,  FROM_BITS = fb;     Convert<U: BitTag> *)")
    w("Inductive family := F_Any (ratio : N) | F_Plain | F_Time (from_seconds : N) | F_Bit (from_bits : N).")
    fam = []
    for t in tags:
        f = t["family"]
        if f[0] == "plain":
            fam.append(f"| T_{t['ident']} => F_Plain")
        elif f[0] == "any":
            fam.append(f"| T_{t['ident']} => F_Any {f[1]}%N")
        elif f[0] == "time":
            fam.append(f"| T_{t['ident']} => F_Time (reduction_factor NS_{f[1]})")
        else:
            fam.append(f"| T_{t['ident']} => F_Bit ({f[1]} * expansion_factor PS_{f[2]})%N")
    w("Definition tag_family (t : tag) : family :=\n  match t with\n  " + "\n  ".join(fam) + "\n  end.")
    w("")
    w("(* const RATIO: f64 = (NUM as f64)/(DEN as f64): is the numerator the source (`Self`) unit's factor? *)")
    w(f"Definition time_ratio_num_is_source : bool := {'true' if T['time_num_is_self'] else 'false'}.")
    w(f"Definition bit_ratio_num_is_source : bool := {'true' if T['bit_num_is_self'] else 'false'}.")
    w("")
    w("(* Convert::convert still has the body the hand-written model mirrors (RATIO == 1.0 shortcut; three arms). *)")
    w(f"Definition convert_body_as_modelled : bool := {'true' if T['convert_shape_ok'] else 'false'}.")
    w("")
    return "\n".join(o)


def main():
    if len(sys.argv) != 3:
        print(__doc__)
        return 2
    src_path, out_path = sys.argv[1], sys.argv[2]
    try:
        text = emit(parse(open(src_path).read()), "metrique-writer-core/src/unit.rs")
    except (Unparsed, OSError, IndexError, ValueError, KeyError) as e:
        msg = f"gen_units: FAILED CLOSED: {type(e).__name__}: {e}"
        print(msg)
        try:
            # deliberately ill-formed: nothing that depends on the tables may keep compiling against stale data
            open(out_path, "w").write("(* " + msg.replace("*)", "* )") + " *)\n"
                                      "gen_units_failed_closed_see_the_comment_above.\n")
        except OSError:
            pass
        # a stale compiled table must not keep the theorems alive either
        import os
        for ext in (".vo", ".vos", ".vok", ".glob"):
            try:
                os.remove(out_path[:-2] + ext)
            except OSError:
                pass
        return 1
    try:
        old = open(out_path).read()
    except OSError:
        old = None
    if old != text:
        open(out_path, "w").write(text)
    print(f"gen_units: wrote {out_path}")
    return 0


if __name__ == "__main__":
    sys.exit(main())
