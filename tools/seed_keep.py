#!/usr/bin/env python3
"""Keep a confirmed seeded change: seeded/<id>/{patch.diff, demo/*, meta.json}.
usage: seed_keep.py <seed dir under /tmp/seed> <detected: yes|no|yes-after-strengthening> <note> [log file]"""
import json, os, shutil, sys, re
sd, detected, note = sys.argv[1], sys.argv[2], sys.argv[3]
log = sys.argv[4] if len(sys.argv) > 4 else None
sid = os.path.basename(sd.rstrip('/'))
dst = os.path.join('/verif/seeded', sid)
os.makedirs(os.path.join(dst, 'demo'), exist_ok=True)
shutil.copy(os.path.join(sd, 'out', 'patch.diff'), os.path.join(dst, 'patch.diff'))
for f in os.listdir(os.path.join(sd, 'out', 'demo')):
    p = os.path.join(sd, 'out', 'demo', f)
    if os.path.isfile(p) and os.path.getsize(p) < 200000:
        shutil.copy(p, os.path.join(dst, 'demo', f))
m = json.load(open(os.path.join(sd, 'out', 'meta.json')))
pid = m.get('property', sid.split('-')[0])
ran = []
if log and os.path.exists(log):
    txt = open(log).read()
    mm = re.search(r"== \[%s\] demo on unchanged code\n(.*?)(?=== \[C\d+\] demo on unchanged|\Z)" % pid, txt, re.S)
    if mm:
        ran = [l for l in mm.group(0).splitlines() if l and not l.startswith('WARNING')][:40]
meta = {
    "property": pid,
    "summary": m.get("summary"),
    "needs": m.get("needs"),
    "author": "fresh sub-agent given only the property text and a scratch worktree",
    "confirmed_by_me": "tools/seed_verify.sh in a fresh worktree of /repo HEAD: demo passes unpatched, fails patched; the touched crate's existing tests pass with the patch; then ./check on the patched tree",
    "what_i_ran": ran,
    "detected": detected,
    "note": note,
    "apply": "git -C /repo apply /verif/seeded/%s/patch.diff   (undo: git -C /repo checkout -- .)" % sid,
}
json.dump(meta, open(os.path.join(dst, 'meta.json'), 'w'), indent=1)
print("kept", dst)
