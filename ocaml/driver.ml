(* Generic driver for the extracted Coq models.  Parsing and printing only:
   reads one s-expression per line on stdin, applies Model.dispatch <code>, prints the result.
   Numbers are hexadecimal ("1f", "-a", "0"), byte strings are quoted hex ("6869"). *)
module M = Model

let hexval c = match c with
  | '0'..'9' -> Char.code c - 48
  | 'a'..'f' -> Char.code c - 87
  | 'A'..'F' -> Char.code c - 55
  | _ -> failwith (Printf.sprintf "bad hex digit %c" c)

(* positive from a hex string, most significant digit first; None for zero *)
let pos_of_hex (s : string) : M.positive option =
  let acc = ref None in
  String.iter (fun c ->
    let v = hexval c in
    for i = 3 downto 0 do
      let b = (v lsr i) land 1 = 1 in
      acc := (match !acc with
              | None -> if b then Some M.XH else None
              | Some p -> Some (if b then M.XI p else M.XO p))
    done) s;
  !acc

let z_of_hex (s : string) : M.z =
  if String.length s > 0 && s.[0] = '-' then
    (match pos_of_hex (String.sub s 1 (String.length s - 1)) with None -> M.Z0 | Some p -> M.Zneg p)
  else (match pos_of_hex s with None -> M.Z0 | Some p -> M.Zpos p)

let n_of_int (i : int) : M.n =
  if i = 0 then M.N0 else
  let rec go i = if i = 1 then M.XH else if i land 1 = 0 then M.XO (go (i lsr 1)) else M.XI (go (i lsr 1)) in
  M.Npos (go i)

let rec int_of_pos = function M.XH -> 1 | M.XO p -> 2 * int_of_pos p | M.XI p -> 2 * int_of_pos p + 1
let int_of_n = function M.N0 -> 0 | M.Npos p -> int_of_pos p

let hex_of_pos (p : M.positive) : string =
  (* bits least significant first *)
  let rec bits p acc = match p with M.XH -> true :: acc | M.XO q -> bits q (false :: acc) | M.XI q -> bits q (true :: acc) in
  let msb_first = bits p [] in
  let n = List.length msb_first in
  let pad = (4 - n mod 4) mod 4 in
  let bl = Array.of_list (List.init pad (fun _ -> false) @ msb_first) in
  let b = Buffer.create 16 in
  let i = ref 0 in
  while !i < Array.length bl do
    let v = (if bl.(!i) then 8 else 0) + (if bl.(!i+1) then 4 else 0) + (if bl.(!i+2) then 2 else 0) + (if bl.(!i+3) then 1 else 0) in
    Buffer.add_char b "0123456789abcdef".[v];
    i := !i + 4
  done;
  Buffer.contents b

let parse_line (s : string) : M.sx =
  let n = String.length s in
  let pos = ref 0 in
  let rec skip () = if !pos < n && (s.[!pos] = ' ' || s.[!pos] = '\t' || s.[!pos] = '\r') then (incr pos; skip ()) in
  let rec item () : M.sx =
    skip ();
    if !pos >= n then failwith "unexpected end of line";
    match s.[!pos] with
    | '(' -> incr pos; let l = items [] in M.L l
    | '"' ->
      incr pos;
      let start = !pos in
      while !pos < n && s.[!pos] <> '"' do incr pos done;
      let h = String.sub s start (!pos - start) in
      incr pos;
      let len = String.length h / 2 in
      let rec go i acc = if i < 0 then acc else go (i-1) (n_of_int (16 * hexval h.[2*i] + hexval h.[2*i+1]) :: acc) in
      M.B (go (len-1) [])
    | _ ->
      let start = !pos in
      while !pos < n && s.[!pos] <> ' ' && s.[!pos] <> ')' && s.[!pos] <> '(' do incr pos done;
      M.A (z_of_hex (String.sub s start (!pos - start)))
  and items acc : M.sx list =
    skip ();
    if !pos >= n then failwith "missing )";
    if s.[!pos] = ')' then (incr pos; List.rev acc) else let x = item () in items (x :: acc)
  in
  item ()

let rec print_sx (b : Buffer.t) (x : M.sx) : unit =
  match x with
  | M.A M.Z0 -> Buffer.add_char b '0'
  | M.A (M.Zpos p) -> Buffer.add_string b (hex_of_pos p)
  | M.A (M.Zneg p) -> Buffer.add_char b '-'; Buffer.add_string b (hex_of_pos p)
  | M.B l ->
    Buffer.add_char b '"';
    List.iter (fun c -> let v = int_of_n c in
      Buffer.add_char b "0123456789abcdef".[(v lsr 4) land 15];
      Buffer.add_char b "0123456789abcdef".[v land 15]) l;
    Buffer.add_char b '"'
  | M.L l ->
    Buffer.add_char b '(';
    List.iteri (fun i y -> if i > 0 then Buffer.add_char b ' '; print_sx b y) l;
    Buffer.add_char b ')'

let () =
  let code = n_of_int (int_of_string Sys.argv.(1)) in
  let b = Buffer.create 65536 in
  (try
    while true do
      let line = input_line stdin in
      if String.length line > 0 then begin
        let x = parse_line line in
        let y = M.dispatch code x in
        Buffer.clear b;
        print_sx b y;
        Buffer.add_char b '\n';
        print_string (Buffer.contents b)
      end
    done
  with End_of_file -> ());
  flush stdout
