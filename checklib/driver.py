"""Check driver: builds the Coq development, audits it, builds the harness against the repository's
working tree, runs implementation and extracted model on the same cases, compares, searches for a
concrete failing input when something breaks, and writes the evidence file."""
import fcntl
import hashlib
import json
import os
import re
import shutil
import subprocess
import sys
import time

from . import props as P

VERIF = os.path.dirname(os.path.dirname(os.path.abspath(__file__)))
REPO = os.environ.get("VERIF_REPO", "/repo")
COQ = os.path.join(VERIF, "coq")
OCAML = os.path.join(VERIF, "ocaml")
CACHE = os.path.join(VERIF, ".cache")
WORK = os.path.join(VERIF, "work")
GUARD = "metrique_verif"

ALLOWED_AXIOMS = {
    "Classical_Prop.classic",
    "FunctionalExtensionality.functional_extensionality_dep",
    "ClassicalDedekindReals.sig_forall_dec",
    "ClassicalDedekindReals.sig_not_dec",
}
FORBIDDEN = re.compile(
    r"\bAdmitted\b|\badmit\b|\bAxiom\b|\bAxioms\b|\bParameter\b|\bParameters\b|\bConjecture\b|Unset\s+Guard|"
    r"bypass_check|Admit\s+Obligations|type-in-type|impredicative-set|Unset\s+Universe\s+Checking|"
    r"Unset\s+Positivity|\bgive_up\b"
)


def log(msg):
    print(f"[check] {msg}", flush=True)


def sh(cmd, cwd=None, env=None, timeout=None, capture=True):
    e = dict(os.environ)
    e.pop("CARGO_TARGET_DIR", None)   # the harness always builds into its own cache directory
    e.update({"CARGO_NET_OFFLINE": "true"})
    if env:
        e.update(env)
    r = subprocess.run(cmd, cwd=cwd, env=e, shell=isinstance(cmd, str), timeout=timeout,
                       stdout=subprocess.PIPE if capture else None,
                       stderr=subprocess.STDOUT if capture else None, text=True, errors="replace")
    return r.returncode, (r.stdout or "")


class Lock:
    def __init__(self, name):
        os.makedirs(CACHE, exist_ok=True)
        self.path = os.path.join(CACHE, name + ".lock")

    def __enter__(self):
        self.f = open(self.path, "w")
        fcntl.flock(self.f, fcntl.LOCK_EX)
        return self

    def __exit__(self, *a):
        fcntl.flock(self.f, fcntl.LOCK_UN)
        self.f.close()


# ------------------------------------------------------------------------------------------ Coq

def strip_comments(src):
    out, depth, i = [], 0, 0
    while i < len(src):
        if src.startswith("(*", i):
            depth += 1
            i += 2
        elif src.startswith("*)", i) and depth > 0:
            depth -= 1
            i += 2
        else:
            if depth == 0:
                out.append(src[i])
            i += 1
    return "".join(out)


def coq_files():
    res = []
    for root, _, files in os.walk(os.path.join(COQ, "theories")):
        for f in sorted(files):
            if f.endswith(".v"):
                res.append(os.path.join(root, f))
    return sorted(res)


def audit_sources():
    """Grep-level audit of every .v file: no admits, no declared axioms, no disabled checks,
    no Variable/Hypothesis/Context outside a section."""
    problems = []
    for f in coq_files():
        src = strip_comments(open(f).read())
        # string literals cannot hide vernacular that matters here; scan the whole text
        for m in FORBIDDEN.finditer(src):
            problems.append(f"{os.path.relpath(f, VERIF)}: forbidden `{m.group(0)}`")
        depth = 0
        for line in src.splitlines():
            s = line.strip()
            if re.match(r"(Section|Module)\s+\w+", s) and not re.match(r"Module\s+\w+\s*:=", s):
                depth += 1 if s.startswith("Section") else 0
            if re.match(r"End\s+\w+\s*\.", s) and depth > 0:
                depth -= 1
            if re.match(r"(Variable|Variables|Hypothesis|Hypotheses|Context)\b", s) and depth == 0:
                problems.append(f"{os.path.relpath(f, VERIF)}: `{s[:60]}` outside a section")
    cp = open(os.path.join(COQ, "_CoqProject")).read()
    for bad in ("type-in-type", "impredicative-set", "-vos", "-vok", "bypass"):
        if bad in cp:
            problems.append(f"_CoqProject: forbidden flag {bad}")
    return problems


def gen_units():
    """C19 translator: regenerate Units/UnitsGen.v from the repository's unit.rs (fails closed)."""
    tool = os.path.join(VERIF, "tools", "gen_units.py")
    out = os.path.join(COQ, "theories", "C19", "UnitsGen.v")
    if not os.path.exists(tool):
        return True, ""
    rc, o = sh([sys.executable, tool, os.path.join(REPO, "metrique-writer-core", "src", "unit.rs"), out])
    return rc == 0, o


def gen_project():
    """_CoqProject and Extract/Dispatch.v are generated from what is on disk: every .v file under theories
    (except Extract/Extract.v) and the `(* DISPATCH <code> <function> *)` markers of each Cnn/Codec.v."""
    th = os.path.join(COQ, "theories")
    entries = []
    for f in coq_files():
        rel = os.path.relpath(f, COQ)
        if rel.endswith("Extract/Extract.v") or rel.endswith("Extract/Dispatch.v"):
            continue
        entries.append(rel)
        if os.path.basename(f) == "Codec.v":
            pass
    disp, reqs = [], []
    for f in coq_files():
        if "DISPATCH" not in open(f).read() or f.endswith("Dispatch.v"):
            continue
        mod = os.path.relpath(f, th)[:-2].replace(os.sep, ".")
        found = re.findall(r"\(\*\s*DISPATCH\s+(\d+)\s+([\w']+)\s*\*\)", open(f).read())
        if found:
            reqs.append(mod)
            for code, fn in found:
                disp.append((int(code), f"{mod}.{fn}"))
    dv = ["(* GENERATED by ./check from the DISPATCH markers of every Cnn/Codec.v -- do not edit. *)",
          "From Coq Require Import List ZArith NArith.", "From MV Require Import Common.Sx."]
    dv += [f"From MV Require {m}." for m in reqs]
    dv += ["Import ListNotations.", "", "Definition dispatch (code : N) (x : sx) : sx :=", "  match code with"]
    dv += [f"  | {c}%N => {fn} x" for c, fn in sorted(disp)]
    dv += ["  | _ => L []", "  end.", ""]
    write_if_changed(os.path.join(th, "Extract", "Dispatch.v"), "\n".join(dv))
    cp = ["-Q theories MV",
          "-arg -w -arg -notation-overridden,-deprecated-hint-without-locality,-deprecated-instance-without-locality,-ambiguous-paths,-deprecated-hint-rewrite-without-locality"]
    cp += sorted(entries) + ["theories/Extract/Dispatch.v", ""]
    write_if_changed(os.path.join(COQ, "_CoqProject"), "\n".join(cp))


def write_if_changed(path, text):
    if not os.path.exists(path) or open(path).read() != text:
        open(path, "w").write(text)


def build_coq():
    """Full .vo build (never -vos/-vok) of every theory; -k so one broken development does not hide
    the state of the others.  Returns (ok_for_all, log)."""
    with Lock("coq"):
        ok_gen, gen_log = gen_units()
        gen_project()
        mk = os.path.join(COQ, "Makefile")
        cp = os.path.join(COQ, "_CoqProject")
        if not os.path.exists(mk) or os.path.getmtime(mk) < os.path.getmtime(cp):
            rc, o = sh("coq_makefile -f _CoqProject -o Makefile", cwd=COQ)
            if rc != 0:
                return False, o
        rc, o = sh("timeout 3000 make -k -j16", cwd=COQ, timeout=3100)
        return rc == 0 and ok_gen, gen_log + o


def vo_of(vfile):
    return vfile[:-2] + ".vo"


def deps_closure(vfile):
    """Transitive MV.* dependencies of a .v file (by scanning Require lines)."""
    seen, todo = set(), [vfile]
    while todo:
        f = todo.pop()
        if f in seen or not os.path.exists(f):
            continue
        seen.add(f)
        src = strip_comments(open(f).read())
        for m in re.finditer(r"From\s+MV\s+Require\s+(?:Import\s+|Export\s+)?([\w.\s]+?)\.(?:\s|$)", src):
            for name in m.group(1).split():
                todo.append(os.path.join(COQ, "theories", *name.split(".")) + ".v")
        for m in re.finditer(r"(?<!MV\s)Require\s+(?:Import\s+|Export\s+)?((?:MV\.[\w.]+\s*)+?)\.(?:\s|$)", src):
            for name in m.group(1).split():
                todo.append(os.path.join(COQ, "theories", *name.split(".")[1:]) + ".v")
    return sorted(seen)


def check_theorems(pid):
    """Compile Props/<pid>.v afresh (its dependencies are built), collecting the pinned theorems and
    what Print Assumptions reports for each.  Returns dict with obligations, discharged, axioms, problems."""
    cfg = P.PROPS[pid]
    pf = os.path.join(COQ, "theories", "Props", pid + ".v")
    res = {"obligations": 0, "discharged": 0, "theorems": [], "axioms": [], "problems": [], "cmd": ""}
    if not os.path.exists(pf):
        res["problems"].append(f"missing {pf}")
        return res
    src = strip_comments(open(pf).read())
    pinned = re.findall(r"\b(?:Theorem|Example|Lemma|Corollary)\s+([\w']+)", src)
    printed = re.findall(r"Print\s+Assumptions\s+([\w'.]+)\s*\.", src)
    # supporting lemmas in the property's own theory directories also count as obligations
    support = 0
    for f in deps_closure(pf):
        if f == pf:
            continue
        s2 = strip_comments(open(f).read())
        support += len(re.findall(r"\b(?:Theorem|Example|Lemma|Corollary|Fact|Remark)\s+[\w']+", s2))
    res["obligations"] = len(pinned) + support
    res["theorems"] = pinned
    for t in pinned:
        if t not in printed and not t.endswith("_example") and "example" not in t.lower():
            res["problems"].append(f"theorem {t} has no Print Assumptions beneath it")
    # every dependency must have been compiled by the full build
    missing = [os.path.relpath(f, COQ) for f in deps_closure(pf) if f != pf and not os.path.exists(vo_of(f))]
    if missing:
        res["problems"].append("dependencies did not compile: " + ", ".join(missing))
        return res
    with Lock("coq"):
        cmd = f"timeout 1200 coqc -Q theories MV theories/Props/{pid}.v"
        res["cmd"] = f"cd coq && coq_makefile -f _CoqProject -o Makefile && make -k -j16 && {cmd}"
        rc, out = sh(cmd, cwd=COQ, timeout=1300)
    if rc != 0:
        res["problems"].append("Props file does not compile: " + out.strip()[-800:])
        return res
    # parse Print Assumptions output blocks
    axioms = set()
    for blk in re.split(r"\n(?=Closed under the global context|Axioms:)", "\n" + out):
        if blk.startswith("Axioms:"):
            for m in re.finditer(r"^([A-Za-z_][\w.']*)\s*:", blk[len("Axioms:"):], re.M):
                axioms.add(m.group(1))
    res["axioms"] = sorted(axioms)
    for a in axioms:
        if a not in ALLOWED_AXIOMS:
            res["problems"].append(f"axiom outside the allow-list: {a}")
    res["discharged"] = res["obligations"]
    return res


def run_coqchk(pid):
    """Thorough tier: the independent checker re-checks Props/<pid>.vo and everything it depends on (standard library
    and Flocq included) and lists the axioms of that whole context.  Returns (problems, note)."""
    with Lock("coq"):
        rc, out = sh(f"timeout 3000 coqchk -o -silent -Q theories MV MV.Props.{pid}", cwd=COQ, timeout=3100)
    if rc != 0:
        return [f"coqchk failed on MV.Props.{pid}: " + out.strip()[-600:]], ""
    m = re.search(r"\* Axioms:(.*?)\n\s*\n", out, re.S)
    axioms = [a.strip() for a in (m.group(1).split("\n") if m else []) if a.strip() and a.strip() != "<none>"]
    problems = []
    for a in axioms:
        if a.split(".")[-1] not in {x.split(".")[-1] for x in ALLOWED_AXIOMS}:
            problems.append(f"coqchk: axiom outside the allow-list in the context of Props/{pid}: {a}")
    for key in ("type-in-type", "unsafe (co)fixpoints", "positivity is assumed"):
        mm = re.search(re.escape(key) + r":\s*(\S+)", out)
        if mm and mm.group(1) != "<none>":
            problems.append(f"coqchk: {key}: {mm.group(1)}")
    return problems, "coqchk -o -silent MV.Props." + pid + ": context axioms = " + (", ".join(axioms) if axioms else "<none>") + \
        "; no type-in-type, unsafe fixpoints or assumed positivity"


def build_driver():
    """Re-extract and recompile the OCaml driver when any .vo is newer than it."""
    with Lock("coq"):
        drv = os.path.join(OCAML, "driver")
        newest = max([os.path.getmtime(vo_of(f)) for f in coq_files() if os.path.exists(vo_of(f))] +
                     [os.path.getmtime(os.path.join(OCAML, "driver.ml"))])
        if os.path.exists(drv) and os.path.getmtime(drv) >= newest:
            return True, ""
        rc, o = sh("coqc -Q ../coq/theories MV ../coq/theories/Extract/Extract.v && "
                   "ocamlfind ocamlopt -O3 -w -a model.mli model.ml driver.ml -o driver", cwd=OCAML, timeout=1200)
        return rc == 0, o


# ------------------------------------------------------------------------------------------ harness

def repo_tag():
    return "repo" if REPO == "/repo" else "alt-" + hashlib.sha1(REPO.encode()).hexdigest()[:10]


def harness_dir():
    return os.path.join(CACHE, "hb", repo_tag())


def build_harness(release=False):
    d = harness_dir()
    with Lock("cargo-" + os.path.basename(d)):
        os.makedirs(d, exist_ok=True)
        tmpl = open(os.path.join(VERIF, "harness", "Cargo.toml.in")).read()
        tmpl = tmpl.replace("@REPO@", REPO).replace("@SRC@", os.path.join(VERIF, "harness", "src"))
        ct = os.path.join(d, "Cargo.toml")
        if not os.path.exists(ct) or open(ct).read() != tmpl:
            open(ct, "w").write(tmpl)
        mods = sorted(f[:-3] for f in os.listdir(os.path.join(VERIF, "harness", "src"))
                      if re.match(r"c\d+\.rs$", f))
        reg = "// GENERATED by ./check: one module per harness/src/cNN.rs\n"
        for m in mods:
            reg += f'#[path = "{os.path.join(VERIF, "harness", "src", m + ".rs")}"]\npub mod {m};\n'
        reg += "pub fn dispatch(name: &str, ctx: &crate::common::Ctx) -> bool {\n    match name {\n"
        for m in mods:
            reg += f'        "{m}" => {m}::run(ctx),\n'
        reg += "        _ => return false,\n    }\n    true\n}\n"
        regp = os.path.join(d, "registry.rs")
        write_if_changed(regp, reg)
        lock_src = os.path.join(REPO, "Cargo.lock")
        lock_dst = os.path.join(d, "Cargo.lock")
        if not os.path.exists(lock_dst):
            shutil.copy(lock_src, lock_dst)
        cmd = ["cargo", "build", "--offline", "--quiet"] + (["--release"] if release else [])
        rc, o = sh(cmd, cwd=d, env={"RUSTFLAGS": f"--cfg {GUARD}", "MV_REGISTRY": regp}, timeout=3000)
        if rc != 0 and "Cargo.lock" in o:
            shutil.copy(lock_src, lock_dst)
            rc, o = sh(cmd, cwd=d, env={"RUSTFLAGS": f"--cfg {GUARD}", "MV_REGISTRY": regp}, timeout=3000)
        binp = os.path.join(d, "target", "release" if release else "debug", "mv-harness")
        return rc == 0, o, binp


# ------------------------------------------------------------------------------------------ running

def run_driver(code, infile, outfile):
    with open(infile) as fi, open(outfile, "w") as fo:
        r = subprocess.run([os.path.join(OCAML, "driver"), str(code)], stdin=fi, stdout=fo, stderr=subprocess.PIPE,
                           text=True)
    return r.returncode == 0, r.stderr


def read_lines(p):
    with open(p) as f:
        return [ln.rstrip("\n") for ln in f]


def compare_suite(pid, outdir, suite):
    """Returns (n_cases, mismatches) where mismatches = list of dict(kind, comparison, index, case, impl, model)."""
    sfx = suite.get("suffix", "")
    cases_p = os.path.join(outdir, f"cases{sfx}.sx")
    impl_p = os.path.join(outdir, f"impl{sfx}.sx")
    if not os.path.exists(cases_p):
        return 0, [dict(kind="tooling", comparison="harness-output", index=-1, case="", impl="",
                        model=f"missing {cases_p}")]
    cases = read_lines(cases_p)
    impl = read_lines(impl_p)
    mism = []
    for comp in suite["comparisons"]:
        outp = os.path.join(outdir, f"{comp['name']}{sfx}.sx")
        if comp["kind"] == "holds":
            pairs = os.path.join(outdir, f"pairs{sfx}.sx")
            with open(pairs, "w") as f:
                for c, i in zip(cases, impl):
                    f.write(f"({c} {i})\n")
            ok, err = run_driver(comp["code"], pairs, outp)
        else:
            ok, err = run_driver(comp["code"], cases_p, outp)
        if not ok:
            mism.append(dict(kind="tooling", comparison=comp["name"], index=-1, case="", impl="", model=err[-500:]))
            continue
        model = read_lines(outp)
        if len(model) != len(cases):
            mism.append(dict(kind="tooling", comparison=comp["name"], index=-1, case="", impl="",
                             model=f"driver produced {len(model)} lines for {len(cases)} cases"))
            continue
        for idx, (c, i, m) in enumerate(zip(cases, impl, model)):
            bad = (m != "1") if comp["kind"] == "holds" else (m != i)
            if bad:
                mism.append(dict(kind="predicate" if comp.get("predicate") else "correspondence",
                                 comparison=comp["name"], index=idx, case=c, impl=i, model=m))
                if len([x for x in mism if x["comparison"] == comp["name"]]) >= 20:
                    break
    return len(cases), mism


def load_known():
    p = os.path.join(VERIF, "known_findings.json")
    if not os.path.exists(p):
        return []
    return json.load(open(p)).get("findings", [])


def match_known(pid, v, known):
    text = f"{v.get('what', '')} {v.get('case', '')} {v.get('impl', '')}"
    for k in known:
        if k.get("property") == pid and k.get("status") == "open" and re.search(k["match"], text):
            return k
    return None


def run_harness(pid, binp, tier, seed, outdir, replay=None, extra=None):
    cfg = P.PROPS[pid]
    if os.path.exists(outdir):
        shutil.rmtree(outdir)
    os.makedirs(outdir)
    cmd = [binp, cfg["harness"], "--tier", tier, "--seed", str(seed), "--out", outdir]
    if replay:
        cmd += ["--replay", replay]
    if extra:
        cmd += extra
    t0 = time.time()
    rc, o = sh(cmd, timeout=cfg.get("timeout", 3000), env={"RUST_BACKTRACE": "1"})
    return rc, o, time.time() - t0


def write_replay(pid, tier, seed, kind, v, extra=None):
    d = os.path.join(WORK, "replays" if REPO == "/repo" else "replays-" + repo_tag())
    os.makedirs(d, exist_ok=True)
    h = hashlib.sha1((v.get("case", "") + v.get("what", "") + kind).encode()).hexdigest()[:12]
    p = os.path.join(d, f"{pid}-{h}.json")
    doc = {"property": pid, "tier": tier, "seed": seed, "kind": kind}
    doc.update(v)
    if extra:
        doc.update(extra)
    doc["how_to_replay"] = f"./check {pid} --replay {p}"
    json.dump(doc, open(p, "w"), indent=1)
    return p


def decide(pid, tier, seed, replay=None):
    t_start = time.time()
    cfg = P.PROPS[pid]
    os.makedirs(WORK, exist_ok=True)
    violations = []   # dicts: kind, what, case, ...
    notes = []

    # (1) the Coq side: build, audit, pinned theorems
    ok_build, blog = build_coq()
    audit = audit_sources()
    thm = check_theorems(pid)
    for pb in audit:
        violations.append(dict(kind="broken-theorem", what="audit: " + pb, case=""))
    for pb in thm["problems"]:
        violations.append(dict(kind="broken-theorem", what=pb, case=""))
    if tier == "thorough" and not replay and not thm["problems"]:
        cpb, cnote = run_coqchk(pid)
        for pb in cpb:
            violations.append(dict(kind="broken-theorem", what=pb, case=""))
        if cnote:
            notes.append(cnote)
    if not ok_build and not thm["problems"]:
        notes.append("some other development failed to build (not a dependency of this property)")
    okd, dlog = build_driver()
    if not okd:
        violations.append(dict(kind="broken-theorem", what="extraction/driver build failed: " + dlog[-600:], case=""))

    # (2) implementation side
    suites = cfg.get("suites", [dict(suffix="", comparisons=cfg.get("comparisons", []))])
    if cfg.get("also_release"):
        # the same suites against the implementation built without debug assertions (wrapping arithmetic, debug_assert! gone)
        suites = suites + [dict(s, profile="release") for s in suites if s.get("profile", "debug") == "debug"]
    metas, total_cases = [], 0
    profiles = sorted({s.get("profile", "debug") for s in suites})
    bins = {}
    for prof in profiles:
        okh, hlog, binp = build_harness(release=(prof == "release"))
        if not okh:
            violations.append(dict(kind="broken-correspondence",
                                   what=f"harness does not build against {REPO} ({prof}): " + hlog[-1500:], case=""))
        bins[prof] = binp
    corr_broken = False
    if okd and all(os.path.exists(b) for b in bins.values()) and not any(v["what"].startswith("harness does not build") for v in violations):
        replay_cases = None
        if replay:
            doc = json.load(open(replay))
            replay_cases = os.path.join(WORK, f"{pid}-replay-cases.sx")
            with open(replay_cases, "w") as f:
                for c in ([doc["case"]] if doc.get("case") else []) + doc.get("cases", []):
                    f.write(c + "\n")
        # corpus first
        corpus = os.path.join(VERIF, "corpus", pid, "cases.sx")
        rounds = []
        if replay_cases:
            rounds.append(("replay", seed, replay_cases))
        else:
            if os.path.exists(corpus):
                rounds.append(("corpus", seed, corpus))
            rounds.append(("main", seed, None))
        for prof in profiles:
            for rname, rseed, rfile in rounds:
                outdir = os.path.join(WORK, f"{pid}-{tier}-{prof}-{rname}-{repo_tag()}")
                rc, o, dt = run_harness(pid, bins[prof], tier, rseed, outdir, replay=rfile,
                                        extra=["--profile", prof] if len(profiles) > 1 else None)
                if rc != 0:
                    # the harness names the case it is executing when a crash of the whole process is possible
                    infl = [f for f in sorted(os.listdir(outdir)) if f.startswith("inflight")] if os.path.isdir(outdir) else []
                    if infl:
                        for f in infl:
                            violations.append(dict(kind="failing-input",
                                                   what=f"the implementation aborted the process on this case ({rname}, rc={rc}): " + o[-600:],
                                                   case=open(os.path.join(outdir, f)).read().strip()))
                    else:
                        violations.append(dict(kind="broken-correspondence",
                                               what=f"harness run failed ({rname}, rc={rc}): " + o[-1500:], case=""))
                    continue
                for s in suites:
                    if s.get("profile", "debug") != prof:
                        continue
                    mp = os.path.join(outdir, f"meta{s.get('suffix', '')}.json")
                    if os.path.exists(mp):
                        m = json.load(open(mp))
                        m["round"] = rname
                        metas.append(m)
                        for fl in m.get("failures", []):
                            violations.append(dict(kind="failing-input", what=fl["what"], case=fl["case"]))
                    n, mism = compare_suite(pid, outdir, s)
                    total_cases += n
                    for mm in mism:
                        if mm["kind"] == "tooling":
                            violations.append(dict(kind="broken-correspondence", what="tooling: " + mm["model"], case=""))
                        elif mm["kind"] == "predicate":
                            violations.append(dict(kind="failing-input",
                                                   what=f"property predicate `{mm['comparison']}` fails on the implementation's output",
                                                   case=mm["case"], impl=mm["impl"], expected=mm["model"]))
                        else:
                            corr_broken = True
                            violations.append(dict(kind="broken-correspondence",
                                                   what=f"model and implementation differ (`{mm['comparison']}`)",
                                                   case=mm["case"], impl=mm["impl"], model=mm["model"]))
        # (4) search: correspondence broke but no concrete failing input yet -> more seeds, predicates only
        if corr_broken and not any(v["kind"] == "failing-input" for v in violations) and not replay:
            for extra_seed in range(seed + 1, seed + 1 + cfg.get("search_rounds", 3)):
                outdir = os.path.join(WORK, f"{pid}-{tier}-search-{repo_tag()}")
                rc, o, dt = run_harness(pid, bins[profiles[0]], tier, extra_seed, outdir)
                if rc != 0:
                    break
                found = False
                for s in suites:
                    if s.get("profile", "debug") != profiles[0]:
                        continue
                    mp = os.path.join(outdir, f"meta{s.get('suffix', '')}.json")
                    if os.path.exists(mp):
                        for fl in json.load(open(mp)).get("failures", []):
                            violations.append(dict(kind="failing-input", what=fl["what"], case=fl["case"]))
                            found = True
                    n, mism = compare_suite(pid, outdir, s)
                    for mm in mism:
                        if mm["kind"] == "predicate":
                            violations.append(dict(kind="failing-input",
                                                   what=f"property predicate `{mm['comparison']}` fails on the implementation's output (search seed {extra_seed})",
                                                   case=mm["case"], impl=mm["impl"], expected=mm["model"]))
                            found = True
                if found:
                    break

    if not metas and not replay and not violations:
        violations.append(dict(kind="broken-correspondence", what="no case was executed (harness binary missing or produced no output)", case=""))
    # (5) known findings / reporting
    known = load_known()
    reported, known_hits = [], {}
    for v in violations:
        k = match_known(pid, v, known)
        if k:
            known_hits.setdefault(k["id"], (k, v))
        else:
            reported.append(v)
    for kid, (k, v) in known_hits.items():
        print(f"KNOWN-FINDING: property={pid} {k['what']}")
    rc = 0
    printed = set()
    # a concrete failing input is the best replay; otherwise name what no longer checks
    concrete = [v for v in reported if v["kind"] == "failing-input"]
    others = [v for v in reported if v["kind"] != "failing-input"]
    if concrete:
        rc = 1
        for v in concrete[:5]:
            p = write_replay(pid, tier, seed, "failing-input", v)
            if p not in printed:
                print(f"VIOLATION property={pid} replay={p}")
                printed.add(p)
        for v in others[:3]:
            write_replay(pid, tier, seed, v["kind"], v)
    elif others:
        rc = 1
        v = others[0]
        p = write_replay(pid, tier, seed, v["kind"], v, extra={"all": [o["what"][:300] for o in others[:20]]})
        print(f"VIOLATION property={pid} replay={p} no-failing-input-found")
        for o in others[1:6]:
            write_replay(pid, tier, seed, o["kind"], o)

    # (6) evidence
    evaluations = sum(m.get("evaluations", 0) for m in metas)
    distinct = sum(m.get("distinct_nontrivial", 0) for m in metas if m.get("round") != "corpus") or \
        sum(m.get("distinct_nontrivial", 0) for m in metas)
    samples = []
    for m in metas:
        samples += m.get("samples", [])[:3]
    samples = samples[:6] + [f"theorem {t}" for t in thm["theorems"][:6]]
    dist = {}
    for m in metas:
        for k, val in m.get("distribution", {}).items():
            dist[k] = dist.get(k, 0) + val
    ev = {
        "property_id": pid,
        "tier": tier,
        "seed": seed,
        "level": "proof",
        "coverage": {
            "obligations": thm["obligations"],
            "discharged": thm["discharged"],
            "checker_cmd": thm["cmd"] or "cd coq && make",
            "trusted_base": cfg.get("trusted_base", []) + [f"axiom (Print Assumptions): {a}" for a in thm["axioms"]] +
            (["Print Assumptions: closed under the global context for every pinned theorem"] if not thm["axioms"] else []),
            "pinned_theorems": thm["theorems"],
            "evaluations": evaluations,
            "distinct_nontrivial": distinct,
            "rule": "; ".join(sorted({m.get("rule", "") for m in metas if m.get("rule")})),
            "samples": samples,
            "distribution": dist,
            "cases_compared_with_model": total_cases,
            "comparisons": [c["name"] + ":" + c["kind"] for s in suites for c in s["comparisons"]],
            "exhaustive": False,
            "explanation": cfg.get("explanation", ""),
            "notes": notes + sum((m.get("notes", []) for m in metas), []),
            "known_findings_printed": sorted(known_hits.keys()),
        },
        "assumptions": cfg.get("assumptions", []),
        "wall_s": round(time.time() - t_start, 2),
        "violations": len(reported),
    }
    os.makedirs(os.path.join(VERIF, "evidence"), exist_ok=True)
    if not replay:
        # evidence/<id>.json is only ever written by runs against /repo itself; runs against another tree
        # (VERIF_REPO=..., used for mutation testing) leave their record under work/
        evdir = os.path.join(VERIF, "evidence") if REPO == "/repo" else os.path.join(WORK, "evidence-" + repo_tag())
        os.makedirs(evdir, exist_ok=True)
        json.dump(ev, open(os.path.join(evdir, f"{pid}.json"), "w"), indent=1)
    log(f"{pid} tier={tier} seed={seed}: theorems {thm['discharged']}/{thm['obligations']}, cases {evaluations}, "
        f"compared {total_cases}, violations {len(reported)}, known {len(known_hits)}, {ev['wall_s']} s")
    for v in reported[:5]:
        log("  " + v["kind"] + ": " + v["what"][:400] + ((" case=" + v["case"][:300]) if v.get("case") else ""))
    return rc


def setup():
    ok, o = build_coq()
    if not ok:
        print(o[-3000:])
        log("coq build reported errors (continuing; per-property checks will say which)")
    okd, o = build_driver()
    if not okd:
        print(o[-3000:])
        return 1
    rels = any(s.get("profile") == "release" for c in P.PROPS.values() for s in c.get("suites", [])) or \
        any(c.get("also_release") for c in P.PROPS.values())
    for rel in ([False, True] if rels else [False]):
        okh, o, _ = build_harness(release=rel)
        if not okh:
            print(o[-3000:])
            return 1
    for hook in P.SETUP_HOOKS:
        r = hook()
        if r:
            return r
    log("setup complete")
    return 0


def main(argv):
    if not argv or argv[0] in ("-h", "--help"):
        print(__doc__)
        return 2
    if argv[0] == "--setup":
        return setup()
    pid = argv[0]
    if pid not in P.PROPS:
        print(f"unknown property {pid}")
        return 2
    tier = os.environ.get("VERIF_TIER", "quick")
    seed = int(os.environ.get("VERIF_SEED", "1") or 1)
    replay = None
    i = 1
    while i < len(argv):
        if argv[i] == "--tier":
            tier = argv[i + 1]
            i += 2
        elif argv[i] == "--seed":
            seed = int(argv[i + 1])
            i += 2
        elif argv[i] == "--replay":
            replay = argv[i + 1]
            i += 2
        else:
            i += 1
    return decide(pid, tier, seed, replay)
