"""Per-property configuration of the check driver."""

COMMON_TB = [
    "Coq 8.16.1 kernel via coqc (full .vo build, vm_compute used for evaluation, no native_compute)",
    "extraction to OCaml with ExtrOcamlBasic only (Extract Inductive bool/option/unit/list/prod/sumbool/sumor; no Extract Constant) + ocaml/driver.ml (parsing/printing only)",
    "Rust correspondence harness (generators, decoders, observation code) built against the repository's working tree with --cfg metrique_verif",
    "hand-written Gallina model: the code is modelled, not verified; the tie is the executed correspondence",
]

SETUP_HOOKS = []

PROPS = {
    "C18": dict(
        harness="c18",
        comparisons=[
            dict(name="model", code=1800, kind="eq"),
            dict(name="spec", code=1801, kind="eq", predicate=True),
        ],
        trusted_base=COMMON_TB,
        assumptions=[
            "durations never overflow std::time::Duration (clock advances are bounded by the generator)",
            "a borrowed guard excludes other stopwatch operations while it lives (Rust's borrow rule, encoded in the generator)",
            "time is read only through the injected time source",
        ],
        explanation="Theorems: the stopwatch/timer mechanism model refines the history-based specification for every operation sequence. "
                    "Correspondence: exhaustive well-scoped sequences up to the tier's depth plus random long ones run on the real Stopwatch/Timer "
                    "with a manually advanced time source; value after every prefix compared with model and with the specification.",
    ),
}
NOT_APPLICABLE = {}
