from . import COMMON_TB, FLOCQ_AXIOMS_NOTE

CONFIG = dict(
    also_release=True,
    harness="c12",
    suites=[
        dict(suffix="-d", comparisons=[
            dict(name="model", code=1200, kind="eq"),
            dict(name="spec", code=1201, kind="holds", predicate=True),
        ]),
        dict(suffix="-g", comparisons=[
            dict(name="congress-model", code=1202, kind="holds"),
            dict(name="congress-spec", code=1203, kind="holds", predicate=True),
        ]),
    ],
    trusted_base=COMMON_TB + [
        "Flocq 4.1.0 (binary32/binary64 arithmetic and comparisons) as the meaning of Rust's f32/f64 operations and `as` casts",
        "rand 0.9 StandardUniform: f32 = (next_u32() >> 8) * 2^-24, f64 = (next_u64() >> 11) * 2^-53 (read from the vendored source, exercised through a scripted RngCore)",
        FLOCQ_AXIOMS_NOTE,
    ],
    assumptions=[
        "per-interval observation counts and the target stay below 2^24 (exactly representable in f32), counters do not overflow u32",
        "the congressional rates are compared over exact rationals: the implementation's f32 results are checked within relative 1e-4 of the model and its invariants within 1e-5",
        "the interval boundary is driven by the verification hook, not by the wall clock",
    ],
    explanation="Theorems: decision iff draw <= rate with the same rate handed on; the EMF weight is floor/ceil of the binary64 inverse rate with exact mean over the 2^53 draws, "
                "saturating below 2^-63; congressional rates stay in (0,1], are 1 below target, within budget and monotone above it, for every history. "
                "Correspondence: the real FixedFractionSample / SampledEmf / CongressSample under a scripted RngCore, draws chosen at the thresholds.",
)
