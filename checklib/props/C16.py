from . import COMMON_TB

CONFIG = dict(
    harness="c16",
    suites=[
        dict(suffix="-a", comparisons=[dict(name="model", code=200, kind="eq")]),
        dict(suffix="-a", profile="release", comparisons=[dict(name="model", code=200, kind="eq")]),
        dict(suffix="-b", comparisons=[dict(name="sinks", code=1600, kind="eq", predicate=True)]),
        dict(suffix="-b", profile="release", comparisons=[dict(name="sinks", code=1600, kind="eq", predicate=True)]),
    ],
    trusted_base=COMMON_TB,
    assumptions=[
        "io::Write implementations honour the trait contract (never claim more bytes than offered; the implementation asserts otherwise)",
        "scripted cases use at most one split dimension set so the line order is deterministic (hash-map order is unspecified)",
        "the background queue's consume path belongs to C01",
    ],
    explanation="Theorems: write_all_vectored delivers a prefix of the payload for every writer script, exactly the payload on Ok, retries Interrupted, "
                "maps Ok(0) to WriteZero; sinks hand every entry to next exactly once in order whatever the results. Correspondence: scripted io::Write "
                "under the real Emf formatter byte-for-byte against the mechanism model, prefix predicate against an all-accepting reference run; "
                "scripted EntryIoStreams under the real sinks against the sink model.",
)
