from . import COMMON_TB

CONFIG = dict(
    also_release=True,
    harness="c17",
    suites=[
        dict(suffix="", comparisons=[
            dict(name="model", code=1700, kind="eq"),
            dict(name="spec", code=1701, kind="eq", predicate=True),
        ]),
        dict(suffix="-race", comparisons=[
            dict(name="race", code=1702, kind="holds", predicate=True),
        ]),
        dict(suffix="-arace", comparisons=[
            dict(name="install-race", code=1703, kind="holds", predicate=True),
        ]),
    ],
    trusted_base=COMMON_TB,
    assumptions=[
        "std RwLock / RefCell / Mutex / thread_local and tokio's Handle::try_current behave as documented (modelled as option slots and maps keyed by thread / runtime id)",
        "a thread-local guard is dropped on the thread that created it (it is !Send) and guards are not leaked with mem::forget",
    ],
    explanation="Theorems: the slot mechanism of the global_entry_sink! macro refines the guard-history specification for every operation sequence; precedence, exactly-one-destination, panic-preserves-state and restore follow. "
                "Correspondence: operation histories over macro-declared globals on persistent OS threads and tokio runtimes with catch_unwind around every operation; results and the recorder sinks' log compared with the mechanism model and the specification.",
)
