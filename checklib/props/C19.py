from . import COMMON_TB, FLOCQ_AXIOMS_NOTE

CONFIG = dict(
    also_release=True,
    harness="c19",
    suites=[
        dict(suffix="-p", comparisons=[
            dict(name="pair-model", code=1900, kind="eq"),
            dict(name="pair-spec", code=1901, kind="eq", predicate=True),
        ]),
        dict(suffix="-c", comparisons=[
            dict(name="census", code=1902, kind="holds"),
        ]),
        dict(suffix="-v", comparisons=[
            dict(name="value-model", code=1903, kind="eq"),
            dict(name="value-spec", code=1904, kind="holds", predicate=True),
        ]),
        dict(suffix="-m", comparisons=[
            dict(name="mean-model", code=1905, kind="eq"),
            dict(name="mean-spec", code=1906, kind="holds", predicate=True),
        ]),
    ],
    trusted_base=COMMON_TB + [
        "tools/gen_units.py: the translator from metrique-writer-core/src/unit.rs to coq/theories/C19/UnitsGen.v (fails closed)",
        "Flocq 4.1.0 (binary64 arithmetic: b64_div, b64_mult, b64_plus, binary_normalize) as the meaning of Rust's f64 operations and integer-to-float casts",
        FLOCQ_AXIOMS_NOTE,
    ],
    assumptions=[
        "rustc evaluates `(x as f64)/(y as f64)` in a const context as one IEEE-754 round-to-nearest-even division (checked bit-for-bit for every pair on every run)",
        "NaN payloads are not compared (every NaN is canonicalised on both sides)",
        "values wrapped in WithUnit are MetricValues (Rust's type system; strings reach the wrapper only through a value that writes one)",
        "Mean: the u64 occurrence counter does not overflow (the generator keeps sums far below 2^64); try_extend is record_value in a loop that stops at the first error",
    ],
    explanation="Translator + theorems: the unit tables are re-extracted from unit.rs on every run and the ratio laws (ratio = quotient of the documented "
                "unit sizes, inverse, composition, correctly rounded binary64 constant, names, quantity preservation, error cases) are re-proved over them. "
                "Correspondence: all Convert pairs exhaustively (RATIO bit patterns and names from the real code vs. Flocq and vs. the hand-written "
                "specification), plus value trees through WithUnit/Distribution/Mean/Option/Duration/#[metrics(unit=..)] recorded by a ValueWriter, "
                "compared with the mechanism model bit-for-bit and with the exact-rational specification within the stated rounding allowance.",
)
