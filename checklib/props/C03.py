from . import COMMON_TB, FLOCQ_AXIOMS_NOTE

CONFIG = dict(
    harness="c03",
    comparisons=[
        dict(name="reference_documents", code=300, kind="eq", predicate=True),
        dict(name="model", code=200, kind="eq"),
    ],
    trusted_base=COMMON_TB + [FLOCQ_AXIOMS_NOTE],
    assumptions=[
        "float printing (dtoa) is an oracle checked per literal; means are computed by Flocq's correctly rounded binary64 division",
        "split records and hash-ordered output are compared as multisets of lines",
    ],
    explanation="Reference interpretation Spec.emf_docs (JSON documents built from the entry without any string buffers) vs the real formatter's bytes.",
)
