from . import COMMON_TB, FLOCQ_AXIOMS_NOTE

_cmp = [
        dict(name="reference_documents", code=300, kind="eq", predicate=True),
        dict(name="model", code=200, kind="eq"),
    ]
CONFIG = dict(
    harness="c03",
    # the formatter is exercised as built without debug assertions, too (the shipped configuration)
    suites=[
        dict(suffix="", profile="debug", comparisons=_cmp),
        dict(suffix="", profile="release", comparisons=_cmp),
    ],
    trusted_base=COMMON_TB + [FLOCQ_AXIOMS_NOTE],
    assumptions=[
        "float printing (dtoa) is an oracle checked per literal; means are computed by Flocq's correctly rounded binary64 division",
        "split records and hash-ordered output are compared as multisets of lines",
    ],
    explanation="Theorems: the formatter's bytes are the printed documents of the reference interpretation Spec.emf_docs (refinement, any "
                "formatter state); those documents in terms of the entry for EVERY entry and configuration — the record without per-metric "
                "dimensions and one record per distinct sorted dimension list, each carrying exactly the metrics with a usable value routed "
                "to it (once, in entry order), declared unless no-metric; every string in every record with its exact text; timestamp in "
                "whole epoch milliseconds; observations exact / clamped / means with saturating counts times the multiplicity; skipped "
                "metrics nowhere. Correspondence: the real formatter's bytes against the printed reference documents (comparison "
                "reference_documents, a failing input when it differs) and against the mechanism model, incl. call sequences on one "
                "formatter with shared dimension sets, split entries without global metrics, and a wall-clock window check for entries "
                "without a timestamp.",
)
