from . import COMMON_TB

CONFIG = dict(
    also_release=True,
    harness="c13",
    suites=[
        dict(suffix="", comparisons=[
            dict(name="model", code=1300, kind="eq"),
            dict(name="spec", code=1301, kind="eq", predicate=True),
        ]),
        dict(suffix="-t", comparisons=[
            dict(name="model", code=1300, kind="eq"),
            dict(name="holds", code=1302, kind="holds", predicate=True),
        ]),
    ],
    trusted_base=COMMON_TB + [
        "std::sync::Arc / Weak / Mutex and tokio::sync::oneshot behave as their documentation says and are linearizable "
        "(oneshot = write-once cell: send fails iff the receiver is closed, try_recv returns the value iff it was sent)",
    ],
    assumptions=[
        "CloseValue::close of the entry and of slot values and EntrySink::append do not panic",
        "the flush guard inside OnParentDrop::Wait belongs to the same entry",
        "no access to the owner while a wait_for_data future lives (Rust's borrow rule, encoded in generator and model)",
        "sequentially consistent interleaving of the modelled atomic steps",
    ],
    explanation="Theorems (repaired mechanism, every number of Slot/LazySlot fields, every label list = history and schedule): a guard that "
                "sent while holding the entry's flush guard and before any force-flush guard began dropping is present with its value; the "
                "entry is not closed while such a guard still holds its flush guard; in any mode a slot is present exactly when the send "
                "happened before the parent closed that slot; the rest of the entry is unaffected; single open; closing never panics; the "
                "unrepaired wait_for_data is refuted (fixed by a fix: commit, witness in corpus). Correspondence: exhaustive sequential "
                "histories and scheduled multi-thread runs over the send/release window on the real Slot/LazySlot/SlotGuard inside a "
                "#[metrics] entry, compared with the mechanism model and the history specification / trace predicate; the first exhaustive "
                "configuration and a quarter of the random histories are run a second time with every drop placed on a thread that is "
                "unwinding from a panic (same model answer: a drop is a drop); free-running threads judged by event order.",
)
