from . import COMMON_TB

CONFIG = dict(
    harness="c13",
    suites=[
        dict(suffix="", comparisons=[
            dict(name="model", code=1300, kind="eq"),
            dict(name="spec", code=1301, kind="eq", predicate=True),
        ]),
        dict(suffix="-t", comparisons=[
            dict(name="model", code=1300, kind="eq"),
            dict(name="holds", code=1302, kind="holds", predicate=True),
        ]),
    ],
    trusted_base=COMMON_TB,
    assumptions=[],
    explanation="",
)
