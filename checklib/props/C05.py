from . import COMMON_TB

CONFIG = dict(
    harness="c05",
    suites=[
        dict(suffix="-s", comparisons=[dict(name="model", code=500, kind="eq"),
                                       dict(name="shutdown-spec", code=501, kind="holds", predicate=True)]),
        dict(suffix="-u", comparisons=[dict(name="shutdown-spec", code=501, kind="holds", predicate=True)]),
    ],
    trusted_base=COMMON_TB,
    assumptions=[],
    explanation="",
)
