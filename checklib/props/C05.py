from .queue_common import QUEUE_TB, QUEUE_ASSUMPTIONS

CONFIG = dict(
    also_release=True,
    harness="c05",
    suites=[
        dict(suffix="-s", comparisons=[dict(name="model", code=500, kind="eq"),
                                       dict(name="shutdown-spec", code=501, kind="holds", predicate=True)]),
        dict(suffix="-u", comparisons=[dict(name="shutdown-spec", code=501, kind="holds", predicate=True)]),
    ],
    trusted_base=QUEUE_TB,
    assumptions=QUEUE_ASSUMPTIONS + [
        "the shutdown drain is not cut short by shutdown_timeout (documented give-up after 30 s; the harness sets 1 h; the theorems carry "
        "the hypothesis `sdhit = false` and say what holds without it)",
        "thread termination is proved as bounded-step reachability of the writer's end (fuel <= 2*cap + pending flush requests + 76 writer "
        "steps) under explicit oracle hypotheses: every flush-interval deadline the writer asks about has passed, the shutdown deadline has "
        "not; the scheduled runs use the 1 us interval for the forget path, the unscheduled ones wait up to 3 s",
        "AttachHandle: dropping it drops the global sink's queue handle and then the join handle (tuple field order); its behaviour is the "
        "label sequence DropHandle; JStore; JUnpark; JJoin of the model and is exercised on a real global_entry_sink! type",
    ],
    explanation="Theorems (Props/C05.v): after drop(join handle) returned the thread is gone, the stream's last events are flush and drop, every "
                "entry appended before the flag was stored was handed to the stream or displaced; join waits for the exit; exit means closed "
                "(also on the forget path: ring empty, everything written); nothing reaches the stream afterwards, late appends only touch "
                "the ring; forget path: REFUTED on the mechanism as found (c05_forget_refuted_before_fix), proved with a step bound on the "
                "repaired mechanism (c05_forget_terminates). Correspondence: scheduled plans with clone / drop-clone / forget / drop-handle "
                "operations and appends + flush requests racing with and following the shutdown, >32 entries queued at shutdown; unscheduled: "
                "shutdown after bursts (also with the writer stalled until the drop), forget path on real threads, AttachHandle of a global sink.",
)
