from . import COMMON_TB, FLOCQ_AXIOMS_NOTE

CONFIG = dict(
    harness="c14",
    # the formatter is exercised as built without debug assertions, too (the shipped configuration)
    suites=[
        dict(suffix="", profile="debug", comparisons=[dict(name="model", code=200, kind="eq")]),
        dict(suffix="", profile="release", comparisons=[dict(name="model", code=200, kind="eq")]),
    ],
    trusted_base=COMMON_TB + [FLOCQ_AXIOMS_NOTE],
    assumptions=[
        "a Value that panics inside write is out of scope",
        "buffer capacity management (shrink_to) is not modelled; it is exercised by large entries",
        "calls with a writer script use entries without split dimension sets (deterministic line order)",
    ],
    explanation="Theorem: for every reachable formatter state (any history of calls, including rejected, split, sampled and I/O-failed ones) a call yields "
                "the same result and bytes as on a fresh formatter. Correspondence: call sequences on one real Emf, each position compared with a fresh "
                "formatter (predicate) and with the model threaded through the same sequence.",
)
