"""Shared configuration text of the background-queue family (C01, C04, C05, C09)."""
from . import COMMON_TB

QUEUE_TB = COMMON_TB + [
    "crossbeam ArrayQueue::{force_push,pop}, crossbeam Parker/Unparker, std::sync::mpsc, tokio oneshot and Arc are modelled by their "
    "documented sequential specifications and assumed linearizable; the Relaxed accesses to the shutdown flag are treated as sequentially "
    "consistent (weak-memory behaviour is outside the model)",
    "the cfg(metrique_verif) synchronisation points in metrique-writer/src/sink/background.rs (add-only hook commit) and the harness's "
    "cooperative scheduler that serialises the threads at those points: between two points a thread runs alone, so a scheduled run is "
    "one label list of the model; labels and oracle values (stream results, deadline hits, park time-outs) are read off what happened",
    "the harness's recording stream / recorder / FlushWait polling (observation order inside one step: stream events in call order, "
    "then completed flush requests by id)",
]
QUEUE_ASSUMPTIONS = [
    "the stream given to the queue does not itself touch the queue (it is any EntryIoStream; its results are oracle values)",
    "a thread performs one queue operation at a time through a handle it keeps alive for the duration of the call (Rust's borrow rules)",
    "capacity > 0 (asserted by BackgroundQueueBuilder::capacity)",
]
