"""Per-property configuration, one module per property (Cnn.py defining CONFIG); scanned at import."""
import importlib
import os
import re

COMMON_TB = [
    "Coq 8.16.1 kernel via coqc (full .vo build, vm_compute used for evaluation, no native_compute)",
    "extraction to OCaml with ExtrOcamlBasic only (Extract Inductive bool/option/unit/list/prod/sumbool/sumor; no Extract Constant) + ocaml/driver.ml (parsing/printing only)",
    "Rust correspondence harness (generators, decoders, observation code) built against the repository's working tree with --cfg metrique_verif",
    "hand-written Gallina model: the code is modelled, not verified; the tie is the executed correspondence",
]
FLOCQ_AXIOMS_NOTE = ("Flocq/Reals bring in the standard-library axioms Classical_Prop.classic, "
                     "FunctionalExtensionality.functional_extensionality_dep, ClassicalDedekindReals.sig_forall_dec, "
                     "ClassicalDedekindReals.sig_not_dec")

PROPS = {}
NOT_APPLICABLE = {}
SETUP_HOOKS = []

_here = os.path.dirname(os.path.abspath(__file__))
for _f in sorted(os.listdir(_here)):
    _m = re.match(r"(C\d+)\.py$", _f)
    if _m:
        _mod = importlib.import_module(f"checklib.props.{_m.group(1)}")
        PROPS[_m.group(1)] = _mod.CONFIG
        for _h in getattr(_mod, "SETUP_HOOKS", []):
            SETUP_HOOKS.append(_h)
