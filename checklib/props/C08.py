from . import COMMON_TB, FLOCQ_AXIOMS_NOTE

_cmp = [
    dict(name="model", code=200, kind="eq"),
    dict(name="no_duplicate_members", code=801, kind="holds", predicate=True),
    # outside the class excused by the known finding (decided in Coq: keys_okb) no record may have two members of one name
    dict(name="nodup_strict", code=802, kind="holds", predicate=True),
]
CONFIG = dict(
    harness="c08",
    suites=[
        dict(suffix="", profile="debug", comparisons=_cmp),
        dict(suffix="", profile="release", comparisons=_cmp),
    ],
    trusted_base=COMMON_TB + [FLOCQ_AXIOMS_NOTE],
    assumptions=[
        "the three validation switches are only reachable together through the public API (skip_all_validations / constructors)",
        "duplicate-member detection uses the Coq parser, which keeps member lists",
    ],
    explanation="Theorems: with validations on, every listed defect is rejected; an accepted entry's bytes equal those with validations off; "
                "constructors per build profile. Correspondence: defect injection at every position under both build profiles "
                "(debug assertions on / off), validations on and off, against the model; strict duplicate-detecting parse of every accepted record. "
                "Soundness (c08_sound_with_routing): every record of an accepted entry — also the dimension-set records of split mode — has "
                "pairwise different member names unless a dimension key collides with another member of its record (the known finding; the "
                "class is decided in Coq by keys_okb, and the comparison nodup_strict tolerates a duplicate only inside it); entries with up to "
                "130/200 dimension sets and a metric repeated under the k-th; rejected-then-valid sequences on one formatter.",
)
