from . import COMMON_TB

CONFIG = dict(
    harness="c10",
    suites=[
        # sequential sink trees, embedded Aggregate, single-client worker scripts: schedule-independent output
        dict(suffix="", comparisons=[
            dict(name="model", code=1000, kind="eq"),
            dict(name="spec", code=1001, kind="holds", predicate=True),
        ]),
        # real threads (mutex sink, worker sink): the linearisation is observed, then checked
        dict(suffix="-thr", comparisons=[
            dict(name="model-on-observed-schedule", code=1002, kind="holds"),
            dict(name="spec", code=1001, kind="holds", predicate=True),
        ]),
    ],
    trusted_base=COMMON_TB,
    assumptions=[
        "u64 sums do not overflow and totals of distribution observations stay below 2^53 (generator bounds), so f64 totals are exact integers",
    ],
    explanation="(work in progress)",
)
