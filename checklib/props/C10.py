from . import COMMON_TB

CONFIG = dict(
    harness="c10",
    comparisons=[
        dict(name="model", code=1000, kind="eq"),
        dict(name="spec", code=1001, kind="holds", predicate=True),
    ],
    trusted_base=COMMON_TB,
    assumptions=[
        "u64 sums do not overflow and totals of distribution observations stay below 2^53 (generator bounds), so f64 totals are exact integers",
    ],
    explanation="(work in progress)",
)
