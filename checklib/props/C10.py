from . import COMMON_TB

CONFIG = dict(
    also_release=True,
    harness="c10",
    suites=[
        # sequential sink trees, embedded Aggregate, mutex-LTS schedules executed label by label,
        # single-client worker scripts: schedule-independent output
        dict(suffix="", comparisons=[
            dict(name="model", code=1000, kind="eq"),
            dict(name="spec", code=1001, kind="holds", predicate=True),
        ]),
        # real threads (mutex sink, worker sink): the linearisation is observed, then checked
        dict(suffix="-thr", comparisons=[
            dict(name="model-on-observed-schedule", code=1002, kind="holds"),
            dict(name="spec", code=1001, kind="holds", predicate=True),
        ]),
    ],
    trusted_base=COMMON_TB + [
        "recorder sinks of the harness (calls on the inner sink logged on the worker thread / under the mutex) observe the linearisation of threaded cases",
    ],
    assumptions=[
        "u64 sums do not overflow and totals of distribution observations stay below 2^53 (generator bounds), so f64 totals are exact integers",
        "bucketed Histogram<T> fields are compared by number of observations only (bucket layout is C11's subject)",
        "the OS scheduler is fair: an enabled worker step is eventually taken (the theorems give progress and a bound on the steps; the harness waits up to 10 s for the thread to return)",
        "threaded cases: the interleaving is chosen by the OS, so their observed schedules (not the cases) differ between runs with the same seed",
        "the inner sink does not panic on the worker thread",
    ],
    explanation="Theorems (Coq, closed under the global context): for every hasher, shape, tee tree and operation list the keyed "
                "aggregator mechanism (association list with hash-restricted lookup, in-place merge, drain on flush) refines the history-based "
                "specification: per flush epoch one aggregate per distinct key with sums / keep-last / distributions-by-count of exactly the inputs "
                "with that key, every input in exactly one aggregate, each tee branch sees the whole history; worker sink as an LTS over all schedules: "
                "FIFO, conservation, flush barrier, progress, and for the repaired loop termination within |channel|+1 steps with everything emitted "
                "(for the loop as found: proved non-termination, replayed on the real code, fixed in the repository); mutex sink and merge-on-drop guards: "
                "each close returns the aggregate of exactly the entries merged since the previous one, a guard contributing its last written value once; "
                "the executable checker used on the implementation's output is proved sound for the specification. "
                "Correspondence: harness-defined #[aggregate] types driven through the real KeyedAggregator / Aggregate / TeeSink / NonAggregatedSink / "
                "MutexSink / WorkerSink / guards: exhaustive small operation and schedule spaces, random histories with up to 600 keys, single-client "
                "worker scripts, and 1-4 real producer threads whose observed linearisation is checked and replayed through the model.",
)
