from . import COMMON_TB, FLOCQ_AXIOMS_NOTE

CONFIG = dict(
    also_release=True,
    harness="c11",
    comparisons=[
        dict(name="model", code=1100, kind="eq"),
        dict(name="spec", code=1101, kind="holds", predicate=True),
    ],
    trusted_base=COMMON_TB + [FLOCQ_AXIOMS_NOTE],
    assumptions=[
        "the per-bucket occurrence total stays below 2^64 (the crate's counters wrap; the generator keeps totals below)",
        "OrderedFloat's order on non-NaN doubles is the order of the sign-magnitude integer of the bit pattern (IEEE-754; exercised by the correspondence on adjacent floats, signed zeros, subnormals, infinities)",
        "atomic fetch_add / swap on one slot are linearizable; concurrent recording is modelled as an interleaving of single-slot increments",
    ],
    explanation="Theorems (for every value, record list, permutation and schedule): the 976 buckets partition [0, 2^64) and value_to_index / "
                "index bounds are mutually inverse; the reported midpoint is within s/32 + 1 of the scaled value; slot contents, count "
                "conservation, permutation invariance, every interleaving of concurrent adds, ascending drain; sort-and-merge runs are strictly "
                "ascending, expand to the sorted non-NaN input and are stable; the midpoint re-indexes to its own bucket. "
                "Correspondence: every bucket of the (4,64) and (4,32) layouts exhaustively on the real `histogram` crate; every bucket boundary "
                "through the real strategies as float, integer and Duration sources; random multisets for all strategies and source types with "
                "repeated observations; re-aggregation; concurrent recording on SharedHistogram from real threads. Output compared bit for bit "
                "with the Flocq model and judged by the exact-rational specification (transport plan within the error bound).",
)
