from . import COMMON_TB, FLOCQ_AXIOMS_NOTE

CONFIG = dict(
    harness="c20",
    suites=[
        dict(suffix="", profile="debug", comparisons=[
            dict(name="model", code=2000, kind="eq"),
            dict(name="spec", code=2001, kind="holds", predicate=True),
        ]),
        # wrapping arithmetic / no debug assertions: the value computations of the Entry impl
        dict(suffix="-rel", profile="release", comparisons=[
            dict(name="model", code=2000, kind="eq"),
            dict(name="spec", code=2001, kind="holds", predicate=True),
        ]),
    ],
    trusted_base=COMMON_TB + [FLOCQ_AXIOMS_NOTE],
    assumptions=[
        "atomic operations on one cell (fetch_add, swap, load, store, the gauge CAS loop) are linearizable and sequentially consistent; the Relaxed / Release orderings of the code are outside the model",
        "the registry (metrics-util) visits every key registered before the visit starts exactly once, in an unspecified order (the order observed is carried by the labels)",
        "per-key totals stay below 2^64 (counters) and the scheduled correspondence cannot interleave inside histogram::AtomicHistogram::drain (external crate): slot-level interleavings are covered by the theorems and by the unscheduled stress runs only",
    ],
    explanation="Theorems (for every label list the machine accepts, i.e. every interleaving of updates with the per-key steps of readouts): "
                "counter deltas reported + residual = increments; per histogram slot swapped-out counts + residual = records; gauges hold the fold "
                "of their operations, a set is what the next load reports; entries are duplicate-free and complete. The u32 cast of bucket counts "
                "is shown to lose 2^32 observations (refuted without the hypothesis). Correspondence: random runs on the real MetricRecorder through "
                "real metrics handles, updates placed between the per-key steps of readout via cfg(metrique_verif) sync points, entries replayed "
                "into a recording EntryWriter and compared with the model's; the exact-arithmetic specification judges the same entries; "
                "unscheduled multi-threaded stress is checked by the accounting predicate.",
)
