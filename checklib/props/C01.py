from .queue_common import QUEUE_TB, QUEUE_ASSUMPTIONS

CONFIG = dict(
    also_release=True,
    harness="c01",
    suites=[
        dict(suffix="-s", comparisons=[dict(name="model", code=100, kind="eq"),
                                       dict(name="spec", code=101, kind="holds", predicate=True)]),
        dict(suffix="-u", comparisons=[dict(name="spec", code=101, kind="holds", predicate=True)]),
        # the limiter in front of the in-band report; by c01_rate_spec_characterises equality with the model is the
        # property-level reading (reports spaced, unreported only if covered), so a difference is a failing input
        dict(suffix="-r", comparisons=[dict(name="rate", code=102, kind="eq", predicate=True)]),
    ],
    trusted_base=QUEUE_TB,
    assumptions=QUEUE_ASSUMPTIONS + [
        "entry ids (producer thread, sequence number) are distinct (the generator's choice; the theorems state exactly-once under NoDup)",
        "phase 1 of every run has no tracing subscriber (in-band reports possible, 1/s process-wide rate limiter = recorded oracle bit), "
        "phase 2 installs a global no-op subscriber (no report may ever appear); the model's config bit `nosub` carries the choice",
    ],
    explanation="Theorems (Props/C01.v, all for every capacity and every label list = every interleaving incl. push/unpark vs drain/park races): "
                "FIFO/history invariant, delivered = order-preserving sub-sequence of the appends, every entry in exactly one place, exactly once, "
                "per-producer order, nothing lost without overflow, only allowed in-band reports, stream errors isolated (erasure simulation), "
                "no lost wake-up, and soundness of the executable specification c01_spec for every model run. "
                "Correspondence: (s) real producer threads + the real writer thread serialised at cfg(metrique_verif) sync points, seeded random "
                "schedules and bounded-preemption systematic exploration of small plans; every run is replayed label by label through the "
                "extracted `step` (writer pc, tracker data words and events compared after every label) and checked by c01_spec; "
                "(u) unscheduled multi-threaded bursts checked by the specification only; "
                "(r) 'rate-limited': theorems about the macro's function (reports spaced by the interval in whole seconds, at most "
                "(hi-lo)/interval+1 of them, unreported only if covered, the same under any interleaving of several threads' loads and "
                "compare-exchanges, u64 saturation) and the real limiter observed through a real queue with its clock forced "
                "(cfg(metrique_verif) hook in rate_limit.rs): every operation sequence up to length 5/6 and random idle/burst patterns.",
)
