from . import COMMON_TB

CONFIG = dict(
    harness="c01",
    suites=[
        dict(suffix="-s", comparisons=[dict(name="model", code=100, kind="eq"),
                                       dict(name="spec", code=101, kind="holds", predicate=True)]),
        dict(suffix="-u", comparisons=[dict(name="spec", code=101, kind="holds", predicate=True)]),
    ],
    trusted_base=COMMON_TB,
    assumptions=[],
    explanation="",
)
