from . import COMMON_TB

CONFIG = dict(
    harness="c01",
    suites=[
        dict(suffix="-s", comparisons=[dict(name="model", code=100, kind="eq")]),
        dict(suffix="-u", comparisons=[]),
    ],
    trusted_base=COMMON_TB,
    assumptions=[],
    explanation="",
)
