from . import COMMON_TB

CONFIG = dict(
    also_release=True,
    harness="c06",
    suites=[
        dict(suffix="", comparisons=[
            dict(name="model", code=600, kind="eq"),
            dict(name="spec", code=601, kind="eq", predicate=True),
        ]),
        dict(suffix="-t", comparisons=[
            dict(name="model", code=600, kind="eq"),
            dict(name="holds", code=602, kind="holds", predicate=True),
        ]),
    ],
    trusted_base=COMMON_TB + [
        "std::sync::Arc / Weak / Mutex behave as their documentation says and are linearizable (Arc = counter whose "
        "decrement-to-zero runs the destructor in the decrementing thread; Weak::upgrade fails iff the strong count is 0)",
    ],
    assumptions=[
        "CloseValue::close of the entry and EntrySink::append do not panic and do not themselves hold or drop guards of the same entry",
        "sequentially consistent interleaving of the atomic steps (one label per Arc decrement / upgrade / lock+take / closure call / unlock)",
    ],
    explanation="Theorems: for every label list (any number of handles and guards, any creation/drop order, any interleaving of the "
                "destructors' atomic steps) the keep-alive mechanism appends at most once, not before the promise is due, has appended "
                "whenever it is due and no destructor is in progress, with the content of the whole history; destructors can always finish. "
                "Correspondence: every complete sequential history within the tier's caps and random longer ones run on the real "
                "AppendAndCloseOnDrop/FlushGuard/ForceFlushGuard/handles against a counting sink that snapshots the live set at append; "
                "compared with the mechanism model and with the history-based specification.",
)
