from . import COMMON_TB

CONFIG = dict(
    also_release=True,
    harness="c15",
    comparisons=[
        dict(name="model", code=1500, kind="eq"),
        dict(name="spec", code=1501, kind="eq", predicate=True),
    ],
    trusted_base=COMMON_TB,
    assumptions=[
        "a user Entry/Value is a deterministic sequence of EntryWriter/ValueWriter calls (DESIGN section 3); the ScriptEntry of the harness replays any such sequence",
        "Rust's trait resolution picks the impls the model names (exercised by the static compositions, not proved)",
    ],
    explanation="Theorems: the writer-wrapping mechanism of every entry/value wrapper refines the item-level specification for every nesting. "
                "Correspondence: script entries under every buildable wrapper composition, recorded by a logging EntryWriter/ValueWriter, "
                "compared with the mechanism model and with the specification.",
)
