from . import COMMON_TB

CONFIG = dict(
    harness="c09",
    suites=[
        dict(suffix="-s", comparisons=[dict(name="model", code=900, kind="eq"),
                                       dict(name="ring-spec", code=901, kind="holds", predicate=True)]),
        dict(suffix="-u", comparisons=[dict(name="overflow-spec", code=901, kind="holds", predicate=True)]),
    ],
    trusted_base=COMMON_TB,
    assumptions=[],
    explanation="",
)
