from .queue_common import QUEUE_TB, QUEUE_ASSUMPTIONS

CONFIG = dict(
    also_release=True,
    harness="c09",
    suites=[
        dict(suffix="-s", comparisons=[dict(name="model", code=900, kind="eq"),
                                       dict(name="ring-spec", code=901, kind="holds", predicate=True)]),
        dict(suffix="-u", comparisons=[dict(name="overflow-spec", code=901, kind="holds", predicate=True)]),
    ],
    trusted_base=QUEUE_TB,
    assumptions=QUEUE_ASSUMPTIONS + [
        "`append never blocks` is the model-level statement that the push label is enabled in every reachable state and is one atomic "
        "action of the pushing thread; under the scheduler it is observed structurally (a granted producer reaches its next point while the "
        "writer is held), in the stalled unscheduled runs by completion of all appends while the writer sits inside stream.next",
        "a metrics recorder is installed (the overflow counter is only reported to a recorder)",
    ],
    explanation="Theorems (Props/C09.v): push always enabled; the model's ring is the specification's ring (ring_push / ring_take); a push into a "
                "full ring displaces exactly the oldest queued entry; an entry is displaced only if >= cap newer entries follow it; order kept; "
                "overflow counter = recorder increments = number displaced; ring never exceeds cap. "
                "Correspondence: as C01 with capacities 1-4, long append bursts and starved writers; the ring specification is replayed over "
                "the observed appends / take moments / next calls / counter increments; unscheduled runs with the writer stalled inside next "
                "check that exactly the newest entries of every producer survive and the counter matches.",
)
