from . import COMMON_TB

CONFIG = dict(
    harness="c07",
    suites=[
        dict(suffix="-infl", comparisons=[dict(name="inflector", code=700, kind="eq")]),
        dict(suffix="-cat", comparisons=[dict(name="concat", code=701, kind="eq")]),
        dict(suffix="", comparisons=[
            dict(name="model", code=702, kind="eq"),
            dict(name="names-values-units", code=703, kind="holds", predicate=True),
            dict(name="sample-group-names", code=706, kind="holds", predicate=True),
            dict(name="sample-group-names-under-flatten-prefix", code=708, kind="holds", predicate=True),
            dict(name="name-borrowed-iff-at-most-100-bytes", code=707, kind="holds", predicate=True),
        ]),
    ],
    timeout=3000,
    trusted_base=COMMON_TB + [
        "rustc/cargo compile the generated programs; the recording EntryWriter/ValueWriter in the generated prelude (harness/src/c07.rs PRELUDE) observes the calls",
        "the Inflector 0.11.4 crate is modelled (C07/Inflector.v), validated differentially on every run, and a Section variable in every theorem",
    ],
    assumptions=[
        "ASCII identifiers, names and prefixes (Inflector's Unicode behaviour is outside the model)",
        "declared units are attached only where the conversion ratio is 1 (native unit None or the same unit); other ratios are property C19",
        "the macro's token generation and rustc's trait resolution are exercised by compiling generated programs, not proved",
    ],
    explanation="Theorems (for every Inflector, every metric type tree of any depth and every value): const concatenation = concatenation for "
                "every length; the operational denotation of the macro + type-level NameStyle machinery (four pre-inflected strings, style "
                "selector, prefix chain as concatenation tree, const_str_value) writes exactly the rows of the declarative naming function "
                "from the documentation; one EntryWriter call per non-ignored field; absent Options contribute nothing; declared units; "
                "Cow kind; sample groups (partial for the code as it is, full for the proposed repair, refutation witness pinned). "
                "Correspondence: generated #[metrics] programs (exhaustive attribute grid + random trees) compiled with the repository's macro "
                "and run, observed through a recording EntryWriter and sample_group(), compared with the mechanism model and with the "
                "specification predicates; Inflector model vs the real crate on >1e5 strings; Concatenated<..> trees vs concat model.",
)
