from . import COMMON_TB

CONFIG = dict(
    also_release=True,
    harness="c18",
    comparisons=[
        dict(name="model", code=1800, kind="eq"),
        dict(name="spec", code=1801, kind="eq", predicate=True),
    ],
    trusted_base=COMMON_TB,
    assumptions=[
        "durations never overflow std::time::Duration (clock advances are bounded by the generator)",
        "a borrowed guard excludes other stopwatch operations while it lives (Rust's borrow rule, encoded in the generator)",
        "time is read only through the injected time source",
    ],
    explanation="Theorems: the stopwatch/timer mechanism model refines the history-based specification for every operation sequence. "
                "Correspondence: exhaustive well-scoped sequences up to the tier's depth plus random long ones run on the real Stopwatch/Timer "
                "with a manually advanced time source; value after every prefix compared with model and with the specification.",
)
