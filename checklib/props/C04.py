from .queue_common import QUEUE_TB, QUEUE_ASSUMPTIONS

CONFIG = dict(
    also_release=True,
    harness="c04",
    suites=[
        dict(suffix="-s", comparisons=[dict(name="model", code=400, kind="eq"),
                                       dict(name="barrier-spec", code=401, kind="holds", predicate=True)]),
        dict(suffix="-u", comparisons=[dict(name="barrier-spec", code=401, kind="holds", predicate=True)]),
        dict(suffix="-w", comparisons=[dict(name="waker-model", code=402, kind="eq")]),
    ],
    trusted_base=QUEUE_TB + [
        "the cfg(metrique_verif) WakerDriver (thin wrapper that calls the private WakerTracker::handle_waiting_wakers with given "
        "capacity / status / count and exposes waiting_wakers.len() and entries_before_wake)",
    ],
    assumptions=QUEUE_ASSUMPTIONS + [
        "`bounded amount of writer progress` is proved (a) unconditionally as a bound on the number of handle_waiting_wakers calls (drain "
        "passes, each of which consumed >= 32 entries or saw the ring empty): at most 2*(cap/32+1) between request and wake-up, and (b) as a "
        "bound on writer steps, 144*(cap/32+1) + 71 + pending requests + requests made meanwhile, under the explicit hypotheses that the "
        "queue stays live (no shutdown request, a queue handle exists) and every flush-interval deadline asked about has passed; wall-clock "
        "bounds are not claimed",
        "a request is `before` an append when its channel send precedes the force_push in the linearisation (the scheduled runs know that "
        "order; the unscheduled runs only use the requester's own earlier appends)",
    ],
    explanation="Theorems (Props/C04.v): the barrier over the observable log (last stream event before a wake-up is a flush, every entry "
                "appended before the request was handed to the stream before or displaced), the same at the waking step, the counter "
                "invariant, bounded drain passes (with and without the ring ever becoming empty), no parking while requests are served, "
                "requests are never dropped, immediate completion after exit, exit completes everything, refinement of the pure "
                "WakerTracker function by the LTS and its local S1/S2/L1 facts. "
                "Correspondence: (s) scheduled runs rich in flush requests incl. full rings of 33-100 entries with the 1 us interval, replayed "
                "through `step` and checked by the barrier / bounded-pass / no-park-while-waiting predicates; wake-ups are observed in log "
                "order inside stream calls; (u) unscheduled runs: barrier on the requester's own appends, every request completes; "
                "(w) the real WakerTracker driven call by call (exhaustive short sequences + random long ones) against Queue/Waker.v.",
)
