from . import COMMON_TB

CONFIG = dict(
    harness="c04",
    suites=[
        dict(suffix="-s", comparisons=[dict(name="model", code=400, kind="eq"),
                                       dict(name="barrier-spec", code=401, kind="holds", predicate=True)]),
        dict(suffix="-u", comparisons=[dict(name="barrier-spec", code=401, kind="holds", predicate=True)]),
        dict(suffix="-w", comparisons=[dict(name="waker-model", code=402, kind="eq")]),
    ],
    trusted_base=COMMON_TB,
    assumptions=[],
    explanation="",
)
