from . import COMMON_TB, FLOCQ_AXIOMS_NOTE

CONFIG = dict(
    harness="c02",
    comparisons=[
        dict(name="model", code=200, kind="eq"),
        dict(name="valid_emf_json", code=201, kind="holds", predicate=True),
    ],
    trusted_base=COMMON_TB + [FLOCQ_AXIOMS_NOTE],
    assumptions=[
        "float printing (dtoa) is an oracle: each case carries the text the real crate produced; both hypotheses (JSON number, rounds back to the float) are checked on every literal",
        "hash-map iteration order is unspecified: split records and missing-dimension messages are compared as multisets",
    ],
    explanation="EMF mechanism model (string buffers, comma logic, truncation, maps) vs the real formatter on generated (config, multiplicity, entry) cases.",
)
