from . import COMMON_TB, FLOCQ_AXIOMS_NOTE

_cmp = [
        dict(name="model", code=200, kind="eq"),
        dict(name="valid_emf_json", code=201, kind="holds", predicate=True),
    ]
CONFIG = dict(
    harness="c02",
    # the formatter is exercised as built without debug assertions, too (the shipped configuration)
    suites=[
        dict(suffix="", profile="debug", comparisons=_cmp),
        dict(suffix="", profile="release", comparisons=_cmp),
    ],
    trusted_base=COMMON_TB + [FLOCQ_AXIOMS_NOTE],
    assumptions=[
        "float printing (dtoa) is an oracle: each case carries the text the real crate produced; both hypotheses (JSON number, rounds back to the float) are checked on every literal",
        "hash-map iteration order is unspecified: split records and missing-dimension messages are compared as multisets",
    ],
    explanation="Theorems: the bytes written for an accepted entry are exactly the printed documents of the reference interpretation "
                "(refinement of the buffer mechanism, any formatter state); every printed document is a value of the RFC 8259 grammar "
                "with the EMF metadata shape, one newline-terminated line each; escaping and number tokens; a validation error writes "
                "nothing; parse (print j) = j for the executable parser used as predicate. Correspondence, in both build profiles "
                "(with and without debug assertions): the real formatter against the mechanism model and the validity predicate "
                "(Coq JSON parser) on generated (configuration, multiplicity, entry) cases incl. every placement of six observation "
                "classes, nasty strings / names / custom units, call sequences on one formatter, entries without a timestamp "
                "(wall-clock window).",
)
